// abasic-core/tests demo: C12 - whitespace around DATA items (after the keyword, around commas, before the terminating
// colon) never changes meaning.  A blank between the last item and the end of the DATA statement - in front of the
// colon, or at the end of the line - used to become an extra empty item when the item before it was quoted or was
// followed by a comma, so `DATA "a" :` held two items where `DATA "a":` holds one.
use abasic_core::{Interpreter, InterpreterOutput, InterpreterState};

fn run_to_idle(i: &mut Interpreter, line: &str) -> Vec<String> {
    let mut out = vec![];
    if let Err(e) = i.start_evaluating(line) {
        out.push(format!("ERROR {}", e.to_string().lines().next().unwrap_or("")));
    }
    loop {
        for o in i.take_output() {
            if let InterpreterOutput::Print(s) = o {
                out.push(s);
            }
        }
        match i.get_state() {
            InterpreterState::Running => {
                if let Err(e) = i.continue_evaluating() {
                    out.push(format!("ERROR {}", e.to_string().lines().next().unwrap_or("")));
                }
            }
            _ => break,
        }
    }
    for o in i.take_output() {
        if let InterpreterOutput::Print(s) = o {
            out.push(s);
        }
    }
    out
}

// what a program that reads two items sees of the given DATA line, and how the line lists
fn two_reads(data_line: &str) -> (Vec<String>, Vec<String>) {
    let mut i = Interpreter::default();
    run_to_idle(&mut i, data_line);
    run_to_idle(&mut i, "20 READ A$ : PRINT \"[\"; A$; \"]\"");
    run_to_idle(&mut i, "30 READ B$ : PRINT \"[\"; B$; \"]\"");
    let listing = run_to_idle(&mut i, "LIST");
    (run_to_idle(&mut i, "RUN"), listing[..1].to_vec())
}

#[test]
fn a_blank_in_front_of_the_colon_is_not_an_item() {
    assert_eq!(two_reads("10 DATA \"a\" : REM"), two_reads("10 DATA \"a\": REM"));
}

#[test]
fn a_blank_at_the_end_of_the_line_is_not_an_item() {
    assert_eq!(two_reads("10 DATA \"a\" "), two_reads("10 DATA \"a\""));
}

#[test]
fn a_blank_after_a_trailing_comma_is_not_an_item() {
    assert_eq!(two_reads("10 DATA a, : REM"), two_reads("10 DATA a,: REM"));
}

#[test]
fn a_tab_in_front_of_the_colon_is_not_an_item() {
    assert_eq!(two_reads("10 DATA \"a\"\t: REM"), two_reads("10 DATA \"a\": REM"));
}
