// abasic-core/tests demo: C05 - analysing ANY text finishes without panicking and every diagnostic maps to a
// position on the file line it names.  A BASIC line number defined twice, where the second definition is not stored
// (empty, or not tokenizable), used to re-point the line-number map at the second file line although the program
// kept the first definition; the mapping step then hit `unwrap()` on None / an explicit `panic!`.
use abasic_core::{DiagnosticMessage, SourceFileAnalyzer};

fn mapped(text: &str) -> Vec<(String, Option<(usize, std::ops::Range<usize>)>)> {
    let a = SourceFileAnalyzer::analyze(text.to_string());
    a.messages()
        .iter()
        .map(|m| {
            let what = match m {
                DiagnosticMessage::Warning(_, _, w) => w.clone(),
                DiagnosticMessage::Error(_, e) => e.to_string().lines().next().unwrap_or("").to_string(),
            };
            (what, a.source_file_map().map_to_source(m))
        })
        .collect()
}

#[test]
fn redefinition_by_an_empty_line_keeps_the_first_definition_mapped() {
    let m = mapped("10 X = 1\n10");
    let unused = m.iter().find(|(w, _)| w.contains("never used")).expect("X is never used");
    assert_eq!(unused.1, Some((0, 3..4)));
}

#[test]
fn redefinition_by_an_untokenizable_line_keeps_the_first_definition_mapped() {
    let m = mapped("10 PRINT 1 +\n10 PRINT \"");
    let eoi = m.iter().find(|(w, _)| w.contains("UNEXPECTED END OF INPUT")).expect("line 10 ends too early");
    assert_eq!(eoi.1.as_ref().map(|p| p.0), Some(0));
    let unterminated = m.iter().find(|(w, _)| w.contains("UNTERMINATED STRING")).expect("second line is untokenizable");
    assert_eq!(unterminated.1.as_ref().map(|p| p.0), Some(1));
}
