#!/bin/bash
# C15: `abasic -w -t FILE` must give the same program output, runtime warnings and trace records as piping the same
# lines followed by RUN into `abasic -w -t`.  Builds the CLI from the tree given as $1 (default /repo) into a scratch
# target directory and prints both transcripts.
REPO=${1:-/repo}
T=$(mktemp -d /tmp/c15demo.XXXXXX)
trap 'rm -rf "$T"' EXIT
( cd "$REPO" && cargo build --offline -q -p abasic-cli --target-dir "$T/target" 2>/dev/null ) || exit 2
printf '10 PRINT A\n20 PRINT "X"\n' > "$T/p.bas"
echo "--- file mode: abasic -w -t p.bas"
"$T/target/debug/abasic" -w -t "$T/p.bas" 2>&1 | sed "s#$T/##"
echo "--- interactive mode: (cat p.bas; echo RUN) | abasic -w -t"
(cat "$T/p.bas"; echo RUN) | "$T/target/debug/abasic" -w -t 2>&1
