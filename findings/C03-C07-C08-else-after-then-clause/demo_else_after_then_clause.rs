// abasic-core/tests demo: a statement that runs as the THEN clause of an IF and hands control away for a while
// (GOSUB until RETURN - C03; INPUT until the reply - C08; STOP until CONT - C07) must behave like any other THEN
// clause: the ELSE clause is skipped.  Control used to come back IN FRONT OF the ELSE, which, dispatched as a
// statement, is SYNTAX ERROR (UNEXPECTED TOKEN).
use abasic_core::{Interpreter, InterpreterState};

fn drive(i: &mut Interpreter, line: &str, reply: Option<&str>) -> (String, Option<String>) {
    let mut out = String::new();
    let mut err = None;
    if let Err(e) = i.start_evaluating(line) {
        err = Some(e.to_string());
    }
    loop {
        for o in i.take_output() {
            out.push_str(&o.to_string());
        }
        match i.get_state() {
            InterpreterState::Running => {
                if let Err(e) = i.continue_evaluating() {
                    err = Some(e.to_string());
                }
            }
            InterpreterState::AwaitingInput => i.provide_input(reply.expect("a reply is needed").to_string()),
            _ => break,
        }
    }
    for o in i.take_output() {
        out.push_str(&o.to_string());
    }
    (out, err.map(|e| e.lines().next().unwrap_or("").to_string()))
}

fn load(lines: &[&str]) -> Interpreter {
    let mut i = Interpreter::default();
    for l in lines {
        drive(&mut i, l, None);
    }
    i
}

#[test]
fn reference_assignment_in_then_clause_skips_else() {
    let mut i = load(&["10 IF 1 THEN X = 5 ELSE PRINT \"NO\"", "20 PRINT X"]);
    assert_eq!(drive(&mut i, "RUN", None), ("5\n".to_string(), None));
}

#[test]
fn c03_gosub_in_then_clause_skips_else_after_return() {
    let mut i = load(&["10 IF 1 THEN GOSUB 100 ELSE PRINT \"NO\"", "20 PRINT \"DONE\"", "30 END", "100 RETURN"]);
    assert_eq!(drive(&mut i, "RUN", None), ("DONE\n".to_string(), None));
}

#[test]
fn c08_input_in_then_clause_skips_else_after_the_reply() {
    let mut i = load(&["10 IF 1 THEN INPUT X ELSE PRINT \"NO\"", "20 PRINT X"]);
    assert_eq!(drive(&mut i, "RUN", Some("5")), ("5\n".to_string(), None));
}

#[test]
fn c07_stop_in_then_clause_skips_else_after_cont() {
    let mut i = load(&["10 IF 1 THEN STOP ELSE PRINT \"NO\"", "20 PRINT \"DONE\""]);
    assert_eq!(drive(&mut i, "RUN", None), ("BREAK IN 10".to_string(), None));
    assert_eq!(drive(&mut i, "CONT", None), ("DONE\n".to_string(), None));
}
