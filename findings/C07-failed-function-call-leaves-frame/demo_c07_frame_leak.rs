// abasic-core/tests demo: C07 - inspecting state at a breakpoint with a statement that FAILS must not change the
// continuation.  A user-function call whose body fails used to leave its frame (and parameter binding) on the call
// stack; after CONT the program then read the parameter value instead of its own variable.
use abasic_core::{Interpreter, InterpreterOutput, InterpreterState};

fn run_to_idle(i: &mut Interpreter, line: &str) -> (Vec<String>, bool) {
    let mut out = vec![];
    let mut failed = i.start_evaluating(line).is_err();
    loop {
        for o in i.take_output() {
            if let InterpreterOutput::Print(s) = o {
                out.push(s);
            }
        }
        match i.get_state() {
            InterpreterState::Running => {
                if i.continue_evaluating().is_err() {
                    failed = true;
                }
            }
            _ => break,
        }
    }
    for o in i.take_output() {
        if let InterpreterOutput::Print(s) = o {
            out.push(s);
        }
    }
    (out, failed)
}

fn session(inspect: Option<&str>) -> String {
    let mut i = Interpreter::default();
    for l in ["10 DEF FN F(X) = X + \"A\"", "20 X = 7", "30 STOP", "40 PRINT X"] {
        run_to_idle(&mut i, l);
    }
    run_to_idle(&mut i, "RUN");
    if let Some(stmt) = inspect {
        let (_, failed) = run_to_idle(&mut i, stmt);
        assert!(failed, "the inspection statement is expected to fail");
    }
    run_to_idle(&mut i, "CONT").0.join("")
}

#[test]
fn failing_function_call_at_a_breakpoint_does_not_change_the_continuation() {
    let plain = session(None);
    assert_eq!(plain, "7\n");
    // FN F(5) fails with TYPE MISMATCH inside the function body (X + "A")
    let inspected = session(Some("PRINT FN F(5)"));
    assert_eq!(inspected, plain);
}
