#!/usr/bin/env python3
"""Regenerate mutscan/RESULTS.md and the table between the MUTSCAN markers of DESIGN.md from mutscan/RESULTS.json."""
import json, os, re
from collections import Counter, defaultdict
V = os.path.dirname(os.path.dirname(os.path.abspath(__file__)))
d = json.load(open(os.path.join(V, 'mutscan', 'RESULTS.json')))
res = d['mutants']
tot = Counter(r['verdict'] for r in res)
by = defaultdict(Counter)
for r in res:
    by[r['unit']][r['verdict']] += 1
relevant = tot['killed'] + tot['SURVIVOR'] + tot['undecided']
lines = []
lines.append('Scan at /repo commit %s: **%d mutants** of %d functions under Verus contract; %d do not compile, %d are killed by the existing tests only after the unit accepted them; of the rest **%d are reported by a failed obligation, %d are undecided (tool limits, solver time-outs), %d survive** both the checks and the tests.\n' % (
    d['repo_commit'], len(res), len(set((r['unit'], r['fn']) for r in res)), tot['stillborn'], tot['killed-by-tests-only'],
    tot['killed'], tot['undecided'], tot['SURVIVOR']))
lines.append('| unit | mutants | failed obligation | undecided | killed by tests only | survive | do not compile |')
lines.append('|---|---|---|---|---|---|---|')
for u in sorted(by):
    c = by[u]
    lines.append('| `%s` | %d | %d | %d | %d | %d | %d |' % (u, sum(c.values()), c['killed'], c['undecided'], c['killed-by-tests-only'], c['SURVIVOR'], c['stillborn']))
table = '\n'.join(lines)
surv = []
for r in res:
    if r['verdict'] == 'SURVIVOR':
        minus = [l[1:].strip() for l in r['diff'].split('\n') if l.startswith('-') and not l.startswith('---')]
        plus = [l[1:].strip() for l in r['diff'].split('\n') if l.startswith('+') and not l.startswith('+++')]
        surv.append('| `%s` | `%s` | %s | `%s` | `%s` |' % (r['unit'], r['fn'], r['kind'], (minus or [''])[0][:90].replace('|', '\\|'), ((plus or [''])[0][:90] or '(deleted)').replace('|', '\\|')))
with open(os.path.join(V, 'mutscan', 'RESULTS.md'), 'w') as f:
    f.write('# Contract-strength scan (bin/mutscan)\n\n' + table + '\n\n## Survivors\n\n| unit | function | operator | original | mutant |\n|---|---|---|---|---|\n' + '\n'.join(sorted(surv)) + '\n')
p = os.path.join(V, 'DESIGN.md')
s = open(p).read()
s = re.sub(r'<!-- MUTSCAN-BEGIN -->.*?<!-- MUTSCAN-END -->', lambda m: '<!-- MUTSCAN-BEGIN -->\n' + table + '\n\nThe survivors are listed in `mutscan/RESULTS.md`.\n<!-- MUTSCAN-END -->', s, flags=re.S)
open(p, 'w').write(s)
print(dict(tot))
