CHECKS = {
 'C04': {
  'text': 'Proof for all inputs and all edit histories: ProgramLines::{set,has,get,first,after,list_tokens} are verified by Verus against a map view (set = last-writer-wins insert/remove preserving the two-index invariant; first/after = minimum / least key above n for every u64 including 0 and 2^64-1; list_tokens = every line once, strictly ascending, paired with its tokens), and lemma_store_is_last_writer_wins lifts the set contract to arbitrary edit sequences by induction. Unit tests sample a handful of edit orders; the contracts quantify over all of them.',
  'note': 'Trusted: vstd HashMap/BTreeSet specs; assumed std specs for BTreeSet::first/range, btree_set::Range::next, &BTreeSet::into_iter (ascending, each element once), Option::copied; u64 Ord = numeric order. Not decided: LIST text formatting, the tokenize-then-store edit path in evaluate_impl, str::parse::<u64>.',
  'technique': 'Verus contracts + inductive lemma on functions extracted verbatim from /repo',
 },
 'C18': {
  'text': 'Complete proof over the full 64-bit domain: Kani function contracts on Rng::random and Rng::latest_random (attached in place to the real functions) are proved for every state/seed (loop-free, fully symbolic, so not bounded): next state = (1664525*s + 1013904223) mod 2^33 computed without overflow, result = state/2^33 in [0,1); Rng::rnd is verified against those contracts (stub_verified) for every f64 argument: negative -> Unimplemented without advancing, zero -> previous value without advancing, positive -> one LCG step.',
  'note': 'Trusted: CBMC IEEE-754 model for u64->f64 conversion and division; kani::stub_verified replaces random/latest_random by their proved contracts in the rnd harness. Not decided: the expression-evaluator path from RND( to Rng::rnd, and the one-line seeding delegations.',
  'technique': 'Kani function contracts (proof_for_contract + stub_verified), loop-free full-domain harnesses',
 },
}
CHECKS.update({
 'C17': {
  'text': 'Partial (this property was first judged not applicable; bringing the statement and expression evaluators under Verus changed that). Decided: (1) syntactic census over abasic-core/src - enable_warnings is read in exactly Interpreter::warn, Interpreter::maybe_log_warning_about_undeclared_array_use and evaluate_expression_term, enable_tracing in exactly evaluate_statement and written only by the TRACE/NOTRACE arms; any new read or write site fails the census; (2) Verus: a disabled warning changes nothing at all, an enabled one appends exactly one Warning record and changes nothing else (program, variables, pending reply, state, rng, switches); (3) Verus: no statement and no expression function writes either switch (frame clause of every evaluator function). Together: the switches can influence nothing but appended Warning/Trace records.',
  'note': 'The four-configuration equivalence itself is an argument over these three facts, not a mechanised relational proof; what the records say (which lines, which variables) is undecided. PRINT and user-function calls are assumed contracts.',
  'technique': 'Verus frame contracts on the real gating functions + syntactic identifier census',
 },
 'C13': {
  'text': 'Partial proof (this property was first judged not applicable; bringing Tokenizer<T: AsRef<str>> under Verus with an external-trait declaration for AsRef changed that): Tokenizer::next, chomp_next_token, chomp_leading_whitespace and chomp_one_or_two_characters are verified on their real text: every token range is [cursor after the blank chomp, cursor after the matcher), non-empty, inside the line, begins on a non-blank byte, only blanks lie between the previous cursor and its start; a tokenization error carries a position inside the line at or after the token start and stops the tokenizer; a lemma over two next() calls gives strict ordering and non-overlap. Punctuation tokens end on a non-blank byte and follow their first byte.',
  'note': 'The other matchers are assumed contracts (two of them Kani-checked, bounded). Character boundaries, end-on-non-blank for every token kind and the re-tokenization clause are undecided.',
  'technique': 'Verus contracts on the real tokenizer driver + punctuation matcher; Kani bounded harnesses for keyword / numeral matchers',
 },
 'C06': {
  'text': 'Partial proof, per operator tier: Verus proves on the real analyzer functions that whenever a tier applied one of its operators the static kind it returns is Number (unary + - NOT; ^; * /; + -; the six comparisons; AND; OR - via a ghost operator counter, loop invariant and an assertion before the tail expression), and Kani proves on the real evaluator functions that the same operators always produce a number (or fail exactly on the operand kinds the analyzer rejects). Name-suffix kind rules of analyzer (ValueType::from_variable_name) and interpreter (Value::validate_type_matches_variable_name) are the same function of the last byte (Kani, bounded name length). The jump-target test is has(n) on both sides.',
  'note': 'Operand parsing below the unary tier is an assumed contract; statement-level agreement is undecided. The disagreement this check found on the original tree (comparison/AND/OR/NOT returned the left operand kind) is repaired by a fix: commit and recorded in known_findings.json.',
  'technique': 'Verus ghost-counter invariants on the analyzer tiers + Kani full-domain harnesses on the evaluator operators',
 },
 'C08': {
  'text': 'Partial proof of the suspend/resume mechanism on the real code: evaluate_input_statement without a pending reply rewinds to its own INPUT token, awaits input and has changed nothing else; with a rejected reply it appends REENTER (and no EXTRA IGNORED) and awaits input again; a reply is consumed once, parsed whole, surplus = unread text; rewind_before_token(INPUT) lands on the nearest preceding INPUT token of the same line, strictly before the cursor, and changes nothing else (its panic! is discharged by the precondition that such a token exists); rewind_program_and_await_input then leaves the interpreter AwaitingInput; provide_input requires AwaitingInput, stores the reply and resumes Running, touching nothing else; coercion of a reply item: number into numeric name, text into numeric name => DATA TYPE MISMATCH (the REENTER path), $ name accepts both (Kani, bounded name length).',
  'note': 'The IF/ELSE interplay is not decided (the suite itself requires UNEXPECTED TOKEN for an ELSE reached as a statement). Subscript evaluation of the INPUT target is an assumed contract (warnings only).',
  'technique': 'Verus loop invariant + decreases on the rewind, typestate contracts; Kani harness on the coercion table',
 },
 'C19': {
  'text': 'Proof of the adapter-side obligations on the real JsInterpreter methods (wasm_bindgen attributes dropped): the two assert!s become preconditions, the panic! arm of get_state is unreachable under the invariant "the core is never left in NewInterpreterRequested between calls", which every method preserves; the error latch is set only after the core returned an error (and is then Idle), cleared by take_latest_error; get_state maps the four states faithfully; NEW yields Interpreter::default(). Three exec-form lemmas show that under the page protocol (which method is called in which observed state) every call meets its precondition from any reachable state.',
  'note': 'The page script is TypeScript: its protocol is an assumption (transliterated). Core start_evaluating contract is assumed; to_string/extend/join are assumed total. The start-up loader defect is outside reach.',
  'technique': 'Verus contracts + invariant on the Web adapter, exec-form protocol lemmas',
 },
 'C15': {
  'text': 'Partial proof, on the real abasic-cli functions (clap derive/attributes dropped; the `colored` dependency is linked as the real crate, built from Cargo.lock with the toolchain Verus uses): the options the session was started with are the ones in force in the interpreter that runs the program - CliArgs::create_interpreter / configure_interpreter set both switches from the arguments, StdioInterpreter::new establishes and load_source_file (file mode, with or without --skip-check), show_interpreter_output, break_interpreter and show_error preserve "interpreter.enable_warnings == args.warnings && interpreter.enable_tracing == args.tracing" and leave the arguments alone; a loaded session is idle and well formed, so RUN can follow; Interpreter::from_program runs exactly the program it is given and SourceFileAnalyzer::into_interpreter hands over exactly the stored lines of the analyzer with no runtime state of the analysis (breakpoint, stack, loops, functions, DATA cursor) and default switches. No index or arithmetic in load_source_file can go out of range given that every diagnostic names a line of the file. Census: run_impl replaces the interpreter only through args.create_interpreter().',
  'note': 'The loading-equals-typing half (SourceFileAnalyzer::run) is undecided. Assumed: analyzer contracts (analyze / take_messages / take_source_file_lines), printer methods and Display impls are total, std::fs::read_to_string / SystemTime / println are total and touch no program state, the clock does not run backwards between two adjacent statements.',
  'technique': 'Verus contracts + invariant on the CLI front-end (verbatim extraction, real `colored` crate linked), syntactic census for run_impl',
 },
 'C05': {
  'text': 'Partial proof of the source map: add/add_empty keep the invariant "every registered BASIC line points at an existing file line"; every position map_location_to_source returns is one of the token ranges registered for exactly the file line the line-number map names; tokenization-error ranges satisfy start <= end <= line length and map to the diagnostic\'s own file line; no index can go out of bounds under the stated preconditions. SourceFileAnalyzer::run itself is outside both verifiers.',
  'note': 'Trusted: vstd HashMap/Vec specs, Range::clone is structural, derived Default of SourceLineRanges. The preconditions of map_to_source (file_line < number of lines; error index within the line) are obligations of run(), which is not verified.',
  'technique': 'Verus contracts on SourceFileMap / TokenizationError::string_range (verbatim extraction)',
 },
 'C12': {
  'text': 'Partial proof: LineCruncher::next - the byte iterator every matcher reads through - is verified against a full functional contract (returns the first non-blank byte at or after the cursor, skips exactly TAB/FF/CR/SPACE, never changes the line, cursor monotone and in bounds), and a lemma shows the crunched byte sequence is invariant under inserting a blank anywhere. The keyword/operator matchers are in the Kani unit tokenizer_matchers when built (bounded).',
  'note': 'Trusted: std definition of u8::is_ascii_whitespace. Identifier/numeral/DATA scanning and Tokenizer::next are undecided.',
  'technique': 'Verus functional contract + inductive lemma on LineCruncher',
 },
 'C02': {
  'text': 'Partial. Proved over the full domain (loop-free harnesses over all pairs of doubles / all operand kinds, on the real functions): the kind and error rule of all 13 binary and 3 unary operators (number op number => number; any string operand of + - * / ^ or unary minus => TYPE MISMATCH; mixed comparison => TYPE MISMATCH; / by +0 or -0 => DIVISION BY ZERO; AND/OR/NOT total), bit-exact values of + - unary+- and of the six numeric comparisons (1/0), truthiness (non-zero incl. NaN, non-empty) and 1/0 encoding of AND/OR/NOT, and the token->operator tables. Bounded stand-ins (never counted as proved): string comparisons for lengths <= 2, * and / values on small integers. Precedence is decided as maximal munch on the real evaluator tiers (Verus): each tier returns only in front of a token that is not a binary operator of its own or a tighter level, with the level table taken from the property. Value-level associativity, ABS/INT values and PRINT formatting are not decided.',
  'note': 'Trusted: CBMC IEEE-754 model; CBMC NaN-on-arithmetic sanity checks are ignored (NaN is a legal BASIC value); Backtrace::capture stubbed (diagnostics only); powf stubbed to an arbitrary double for the kind rule.',
  'technique': 'Kani loop-free full-domain harnesses on the real operator functions; Verus frame contracts on the real evaluator tiers',
 },
 'C01': {
  'text': 'Partial proof. Decided for all inputs/histories: (a) the representation invariant "every stored location (current, breakpoint, every stack frame, every loop, every function definition) names an existing line, both stacks <= 32" is preserved by every Program mutator under contract (Verus), which discharges the only unwrap on a line lookup (tokens_for_line), the expect()s of the function-call path and the panic! in rewind_before_token as preconditions; (b) arithmetic safety of every function under contract (token cursor increments, ProgramLines::after for every u64, Rng::random for every seed - Kani, complete); (c) error values carry a location (populate_error_location). (d) the real statement and expression evaluators keep the invariant and contain no reachable panic (casts, unwraps, data[0] under the non-empty-reply fact) apart from four assumed leaf contracts. Not decided: string-literal / numeral / REM / DATA matchers, the DATA item parser, native stack depth.',
  'note': 'Proof-level for the listed functions only; the evidence lists functions under contract, assumed callees (external_body) and undecided clauses. Trusted: vstd, assumed std specs (BTreeSet first/range/iter, Option::copied), derived Clone/PartialEq/Default of Token/Symbol/ProgramLocation are structural.',
  'technique': 'Verus inductive invariant over Program mutators (verbatim extraction) + Kani function contract on Rng',
 },
 'C03': {
  'text': 'Partial proof of the anchored mechanisms, each against a spec function: line sequencing = least stored key above the current line (next_line over ProgramLines::after), RUN starts at the least key, GOSUB pushes / RETURN pops exactly the return location on one stack capped at 32, RETURN on an empty stack is RETURN WITHOUT GOSUB, error-line attribution (populate_error_location: existing location kept; DATA TYPE MISMATCH points at the DATA cursor; otherwise previous token of the current line), start_loop pushes the loop for its variable at the current location. The differential claim itself (statement dispatch, IF/ELSE, FOR arithmetic in doubles) is not decided by this family here.',
  'note': 'remove_loop_with_name is an assumed contract in Verus (iterator adapters). statement.rs/expression.rs are outside both verifiers.',
  'technique': 'Verus contracts on Program/ProgramLines control-flow primitives',
 },
 'C07': {
  'text': 'Proof at the level of the program state: lemma_cont_undoes_break shows, from the contracts of break_at_current_location and continue_from_breakpoint alone, that CONT after a break at any numbered location restores location, stack, loops, functions, DATA cursor and code exactly; immediate lines keep the stack iff a breakpoint is pending; GOTO/RETURN clear the breakpoint; a second CONT is CAN\'T CONTINUE. Holds for every well-formed state, hence every program and every break point.',
  'note': 'Statement dispatch (that STOP and host break reach break_at_current_location, that immediate statements go through set_and_goto_immediate_line) is assumed. The frame-restoration of a failing user-function call is in unit fn_call_frames when built.',
  'technique': 'Verus contracts + exec-form lemmas over the contracts of Program',
 },
 'C09': {
  'text': 'Partial proof: every token-cursor primitive (peek/next/accept/try_next/expect/next_unwrapped/discard/rewind) stays on the current line, moves the cursor by at most one (discard: to the line end, rewind: strictly backwards with a decreases measure) and changes nothing else - the measure that makes each scan over a line a single pass; next_line moves to the successor line or reports the end. run_next_statement / continue_evaluating / start_evaluating / evaluate_impl are loop-free with exactly one statement-evaluation call site on each path (syntactic census + Verus), and the IF false-branch scan and DEF body skip of the real statement.rs are single passes with a proved decreases measure (line length minus cursor).',
  'note': 'The expression evaluator enters statements through an assumed temporary-borrow link (its body is proved in unit expressions); user-defined function calls are an assumed contract. READ and PRINT loops carry no termination measure.',
  'technique': 'Verus contracts with frame conditions on the cursor primitives; loop decreases',
 },
 'C10': {
  'text': 'Proof (program side): run_from_first_numbered_line establishes, from the stored lines alone and for any prior state, breakpoint = none, DATA cursor = none, no functions, empty stack, no loops, location = least stored line (or immediate for an empty program); lemma_run_state_depends_on_code_only states it relationally for two arbitrary histories. Interpreter side (fresh Variables/Arrays, pending reply) is in maybe_process_command, outside Verus.',
  'note': 'The known pending-reply leak (Interpreter.input not cleared by RUN) is outside the decided clauses.',
  'technique': 'Verus postcondition + relational exec-form lemma',
 },
 'C11': {
  'text': 'Proof: set_numbered_line, from ANY state with a well-formed store, yields breakpoint none, DATA cursor none, no functions, empty stack, no loops, immediate location, and re-establishes the full invariant from the new store alone (so no stored location survives an edit); lemmas then derive CONT => CAN\'T CONTINUE, RETURN => RETURN WITHOUT GOSUB, FN lookup => none, loop lookup => none, from the callee contracts. A history-quantified claim reduced to one postcondition.',
  'note': 'NEXT WITHOUT FOR additionally needs end_loop (f64 arithmetic, outside Verus) to return the error when remove_loop_with_name yields None - read, not proved. Tokenize-before-store in evaluate_impl is assumed.',
  'technique': 'Verus postcondition of set_numbered_line + exec-form lemmas',
 },
 'C16': {
  'text': 'Proof for the control stacks: stack <= 32, loops <= 32 and "no two open loops for one variable" are part of the invariant preserved by every Program mutator; gosub/push_function_call at the cap return OUT OF MEMORY (STACK OVERFLOW) changing nothing; start_loop removes the same-named loop first, so re-entering a FOR via GOTO does not accumulate. Name-suffix typing: Variables::set/get (Verus, typed() invariant), the Arrays wrapper (Verus: implicit creation, DIM, typed cells) and the value/array kind rules on the real str functions (Kani, bounded name length); array sizing and addressing by Kani (bounded dimension count).',
  'note': 'remove_loop_with_name is assumed in Verus; end_loop (re-push of the removed loop) is read, not proved.',
  'technique': 'Verus invariant (caps) over Program mutators',
 },
})
NOT_APPLICABLE = {
 'C14': 'every anchored mechanism is core::fmt Display, f64 printing/parsing and the full tokenizer; neither verifier models them, a contract could only restate the round trip as an axiom',
 'C20': 'JSON-RPC main loop over threads (lsp-server, serde) and iterator-adapter code over SourceFileAnalyzer; UTF-16 conversion would be a contract on code that does not exist',
}
NOTES = 'Exit codes of bin/vcheck: 0 holds, 1 VIOLATION (line printed), 2 undecided (tool trouble: lost anchor, unsupported construct, rlimit/timeout, vacuity canary) - exit 2 is never an alarm. known_findings.json lists recorded findings and fixed defects. No hooks are committed to /repo.'
