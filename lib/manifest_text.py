CHECKS = {
 'C04': {
  'text': 'Proof for all inputs and all edit histories: ProgramLines::{set,has,get,first,after,list_tokens} are verified by Verus against a map view (set = last-writer-wins insert/remove preserving the two-index invariant; first/after = minimum / least key above n for every u64 including 0 and 2^64-1; list_tokens = every line once, strictly ascending, paired with its tokens), and lemma_store_is_last_writer_wins lifts the set contract to arbitrary edit sequences by induction. Unit tests sample a handful of edit orders; the contracts quantify over all of them.',
  'note': 'Trusted: vstd HashMap/BTreeSet specs; assumed std specs for BTreeSet::first/range, btree_set::Range::next, &BTreeSet::into_iter (ascending, each element once), Option::copied; u64 Ord = numeric order. Not decided: LIST text formatting, the tokenize-then-store edit path in evaluate_impl, str::parse::<u64>.',
  'technique': 'Verus contracts + inductive lemma on functions extracted verbatim from /repo',
 },
 'C18': {
  'text': 'Complete proof over the full 64-bit domain: Kani function contracts on Rng::random and Rng::latest_random (attached in place to the real functions) are proved for every state/seed (loop-free, fully symbolic, so not bounded): next state = (1664525*s + 1013904223) mod 2^33 computed without overflow, result = state/2^33 in [0,1); Rng::rnd is verified against those contracts (stub_verified) for every f64 argument: negative -> Unimplemented without advancing, zero -> previous value without advancing, positive -> one LCG step.',
  'note': 'Trusted: CBMC IEEE-754 model for u64->f64 conversion and division; kani::stub_verified replaces random/latest_random by their proved contracts in the rnd harness. Not decided: the expression-evaluator path from RND( to Rng::rnd, and the one-line seeding delegations.',
  'technique': 'Kani function contracts (proof_for_contract + stub_verified), loop-free full-domain harnesses',
 },
}
NOT_APPLICABLE = {
 'C13': 'token ranges are assembled in Tokenizer::next/chomp_next_token: Verus cannot type Tokenizer<T: AsRef<str>> and str byte reasoning, CBMC does not finish symbolic execution of next() even on 6-byte lines (DESIGN §10); no contract within reach decides it',
 'C14': 'every anchored mechanism is core::fmt Display, f64 printing/parsing and the full tokenizer; neither verifier models them, a contract could only restate the round trip as an axiom',
 'C15': 'compares two process-level I/O modes of abasic-cli (clap, rustyline, std::fs, stdout); load_source_file is format!/colored glue outside both verifiers',
 'C17': 'four-configuration relational property over whole-program runs; the gating code is interleaved with format! inside generic AsRef<str> evaluators that neither verifier can take',
 'C20': 'JSON-RPC main loop over threads (lsp-server, serde) and iterator-adapter code over SourceFileAnalyzer; UTF-16 conversion would be a contract on code that does not exist',
}
NOTES = 'Exit codes of bin/vcheck: 0 holds, 1 VIOLATION (line printed), 2 undecided (tool trouble: lost anchor, unsupported construct, rlimit/timeout, vacuity canary) - exit 2 is never an alarm. known_findings.json lists recorded findings and fixed defects. No hooks are committed to /repo.'
