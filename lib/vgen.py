"""Generate one Verus file from a unit spec (.vu) and /repo's working tree.

A .vu file is Rust text with `//@` directives.  Everything that is not a directive is
copied verbatim (prelude: spec fns, lemmas, assumed std specs).  Directives:

  //@ unit <name>
  //@ item <relpath> <struct|enum|const|type> <Name> [drop=f1,f2] [strip_derive=PartialEq,..]
  //@ impl <relpath> <Trait for Type>            whole small trait impl, verbatim
  //@ fn <relpath> <ImplMatch|-> <name> [props=C01,C04] [ret=r] [inherent] [as=<alias>]
  //@ stub <relpath> <ImplMatch|-> <name> [props=..] [ret=r] [inherent]    (external_body)
      followed by sections, each ended by the next `//@` line:
        //@ spec                 requires/ensures/decreases, spliced between signature and body
        //@ loop <k>             invariant/decreases for the k-th loop (1-based, source order)
        //@ entry                ghost code right after the body's opening brace
        //@ loopbody <k>         ghost code right after the k-th loop body's opening brace
        //@ tail                 ghost code right before the tail expression
        //@ exit                 ghost code at the end of a body that ends with a statement
  //@ end
  //@ region <name> [props=..]   names the verbatim text that follows (lemmas) for reporting

Inside sections a clause is named with a trailing `//# name` or `//# name [C04,C11]`.
"""
import os
import re
import sys

sys.path.insert(0, os.path.dirname(__file__))
import rsx  # noqa: E402

REPO = os.environ.get('VERIF_REPO', '/repo')


def count_closures(text):
    """Number of closure expressions (`|x| ..`, `move |..| ..`, `|| ..`) in a function's source (comments/strings masked).
    A `|..|` is a closure head when what precedes it cannot end an operand: `(`, `,`, `=`, `{`, `;`, `:`, `=>`, or `move` / `return`."""
    masked, _ = rsx.mask(text)
    n = 0
    for m in re.finditer(r'\|([^|\n;{}]*)\|', masked):
        inner = m.group(1)
        if not re.fullmatch(r"[\w\s,:&<>'()\[\]_.*]*", inner):
            continue
        before = masked[:m.start()].rstrip()
        if not before:
            continue
        if before[-1] in '(,={;:>' or re.search(r'\b(move|return)$', before):
            n += 1
    return n


class SpecError(Exception):
    pass


class Gen:
    def __init__(self, unit_path, repo=None):
        self.unit_path = unit_path
        self.repo = repo or REPO
        self.files = {}
        self.lines = []          # generated lines
        self.origin = []         # per generated line: dict
        self.functions = []      # evidence: functions under contract
        self.stubs = []
        self.items = []
        self.norm_counts = {'N0_pub': 0, 'N1_attrs_docs': 0, 'N2_ref_pattern': 0,
                            'N3_iterator_impl': 0, 'N4_dropped_fields': 0, 'N5_named_return': 0}
        self.clauses = {}        # (fn, section, name) -> props
        self.unit = os.path.splitext(os.path.basename(unit_path))[0]
        self.regions = {}
        self.externs = []        # (package, [crate names]) linked as real crates
        self.canary = None       # None | 'entry' | 'exit'  (vacuity guard variants, see vrun.run_canaries)
        self.fn_props = {}
        self.loop_counts = {}
        self.dropped_loop_sections = []
        self.syntactic = []      # census obligations: (fn, name, ok, detail, props)

    # ------------------------------------------------------------------
    def rf(self, rel):
        if rel not in self.files:
            p = os.path.join(self.repo, rel)
            if not os.path.exists(p):
                raise rsx.LostAnchor('source file %s does not exist' % rel)
            self.files[rel] = rsx.RustFile(p, rel)
        return self.files[rel]

    def emit(self, text, origin):
        for ln in text.split('\n'):
            self.lines.append(ln)
            self.origin.append(origin)

    def emit_src(self, text, rel, src_line, fn=None):
        for k, ln in enumerate(text.split('\n')):
            self.lines.append(ln)
            self.origin.append({'kind': 'src', 'file': rel, 'line': src_line + k, 'fn': fn})

    # ------------------------------------------------------------------
    def run(self):
        raw = self.load(self.unit_path)
        i = 0
        region = {'kind': 'verbatim', 'region': 'prelude', 'props': []}
        while i < len(raw):
            ln = raw[i]
            s = ln.strip()
            if s.startswith('//@'):
                d = s[3:].split()
                if not d:
                    i += 1
                    continue
                cmd = d[0]
                if cmd == 'unit':
                    self.unit = d[1]
                    i += 1
                elif cmd == 'extern':
                    # //@ extern <package> <crate>...: link the real dependency crates of <package> (built from the
                    # repo's Cargo.lock with Verus' own toolchain) instead of declaring stand-ins for them
                    self.externs.append((d[1], d[2:]))
                    i += 1
                elif cmd == 'region':
                    opts = _opts(d[2:])
                    props = opts.get('props', '').split(',') if opts.get('props') else []
                    region = {'kind': 'verbatim', 'region': d[1], 'props': props}
                    self.regions[d[1]] = props
                    i += 1
                elif cmd == 'item':
                    self.do_item(d[1], d[2], d[3], _opts(d[4:]))
                    i += 1
                elif cmd == 'impl':
                    self.do_impl(d[1], ' '.join(x for x in d[2:] if '=' not in x or x.startswith('From<')))
                    i += 1
                elif cmd == 'identcount':
                    self.do_identcount(d[1], d[2:])
                    i += 1
                elif cmd == 'guardcensus':
                    self.do_guardcensus(d[1], d[2], _opts(d[3:]))
                    i += 1
                elif cmd == 'census':
                    self.do_census(d[1], d[2], d[3], _opts(d[4:]))
                    i += 1
                elif cmd in ('fn', 'stub'):
                    # collect sections until //@ end
                    j = i + 1
                    sections = []
                    cur = None
                    while j < len(raw):
                        t = raw[j].strip()
                        if t.startswith('//@'):
                            dd = t[3:].split()
                            if dd and dd[0] == 'end':
                                break
                            if dd and dd[0] in ('spec', 'entry', 'tail', 'exit'):
                                cur = {'sec': dd[0], 'k': None, 'lines': [], 'uline': j + 1}
                                sections.append(cur)
                            elif dd and dd[0] in ('loop', 'loopbody', 'loopend'):
                                cur = {'sec': dd[0], 'k': int(dd[1]), 'lines': [], 'uline': j + 1,
                                       'opts': _opts(dd[2:])}
                                sections.append(cur)
                            elif dd and dd[0] == 'before':
                                # //@ before <callee> <k>: ghost code in front of the statement holding the k-th call of <callee>
                                # `of=<n>`: the number of call sites of <callee> the function had when the ghost code was
                                # written; another count means the k-th call may be a different statement now: lost anchor
                                cur = {'sec': 'before', 'k': int(dd[2]), 'callee': dd[1], 'lines': [], 'uline': j + 1,
                                       'of': int(_opts(dd[3:]).get('of', 0))}
                                sections.append(cur)
                            else:
                                raise SpecError('%s:%d: unexpected directive inside fn: %s' % (self.unit_path, j + 1, t))
                        else:
                            if cur is None:
                                if t:
                                    raise SpecError('%s:%d: text before first section' % (self.unit_path, j + 1))
                            else:
                                cur['lines'].append(raw[j])
                        j += 1
                    else:
                        raise SpecError('%s:%d: missing //@ end' % (self.unit_path, i + 1))
                    self.do_fn(cmd == 'stub', d[1], d[2], d[3], _opts(d[4:]), sections)
                    i = j + 1
                else:
                    raise SpecError('%s:%d: unknown directive %s' % (self.unit_path, i + 1, cmd))
            else:
                self.lines.append(ln)
                o = dict(region)
                o['uline'] = i + 1
                self.origin.append(o)
                i += 1
        return '\n'.join(self.lines) + '\n'

    def load(self, path, as_stub=False, skip=()):
        """Read a .vu file, expanding `//@ include <file> [as_stub]` (as_stub turns every `fn`
        directive of the included file into `stub`, so the same contract text is proved in one
        unit and assumed in another)."""
        out = []
        with open(path) as f:
            for ln in f.read().split('\n'):
                s = ln.strip()
                if s.startswith('//@ include '):
                    d = s.split()
                    inc = os.path.join(os.path.dirname(self.unit_path), d[2])
                    sk = tuple(x for t in d[3:] if t.startswith('skip=') for x in t[5:].split(','))
                    out += self.load(inc, as_stub=as_stub or 'as_stub' in d[3:], skip=skip + sk)
                elif skip and (s.startswith('//@ fn ') or s.startswith('//@ stub ')) and \
                        ('%s::%s' % (s.split()[3], s.split()[4]) in skip or s.split()[4] in skip):
                    out.append('//@ skipblock')
                elif as_stub and s.startswith('//@ fn '):
                    out.append(ln.replace('//@ fn ', '//@ stub ', 1))
                elif as_stub and (s.startswith('//@ identcount ') or s.startswith('//@ census ') or s.startswith('//@ guardcensus ')):
                    # syntactic census obligations belong to the unit that proves the functions they talk about
                    continue
                else:
                    out.append(ln)
        res = []
        skipping = False
        for ln in out:
            if ln.strip() == '//@ skipblock':
                skipping = True
                continue
            if skipping:
                if ln.strip() == '//@ end':
                    skipping = False
                continue
            res.append(ln)
        return res

    # ------------------------------------------------------------------
    def strip_prefix(self, item, keep_derive=True, strip_derive=()):
        """N1: drop doc comments and attributes except derive/default. Returns (text, first_src_line)."""
        lines = item.text.split('\n')
        out = []
        started = False
        first_line = item.line_start
        k = 0
        dropped = 0
        kept_prefix = []
        while k < len(lines):
            t = lines[k].strip()
            if not started and (t.startswith('//') or t == ''):
                dropped += 1 if t else 0
                k += 1
                continue
            if not started and t.startswith('#['):
                if keep_derive and t.startswith('#[derive('):
                    if strip_derive:
                        inner = t[len('#[derive('):t.rindex(')')]
                        names = [x.strip() for x in inner.split(',') if x.strip() and x.strip() not in strip_derive]
                        if names:
                            kept_prefix.append('#[derive(%s)]' % ', '.join(names))
                    else:
                        kept_prefix.append(t)
                else:
                    dropped += 1
                k += 1
                continue
            started = True
            break
        self.norm_counts['N1_attrs_docs'] += dropped
        body = '\n'.join(lines[k:])
        return kept_prefix, body, item.line_start + k

    def strip_pub(self, text):
        masked, _ = rsx.mask(text)
        res = []
        last = 0
        n = 0
        for m in re.finditer(r'\bpub(?:\s*\([^)]*\))?[ \t]+', masked):
            res.append(text[last:m.start()])
            last = m.end()
            n += 1
        res.append(text[last:])
        self.norm_counts['N0_pub'] += n
        return ''.join(res)

    def strip_inner_docs(self, text):
        """N1 inside struct/enum bodies: doc comments and non-default attributes on fields."""
        out = []
        n = 0
        for ln in text.split('\n'):
            t = ln.strip()
            if t.startswith('///') or (t.startswith('#[') and not t.startswith('#[default]') and not t.startswith('#[derive(')):
                n += 1
                out.append('')
            else:
                out.append(ln)
        self.norm_counts['N1_attrs_docs'] += n
        return '\n'.join(out)

    def do_item(self, rel, kind, name, opts):
        f = self.rf(rel)
        it = f.find_item(kind, name)
        # `Debug` is always dropped from derive lists (fmt machinery, irrelevant to semantics; counted under N1)
        strip_derive = tuple(x for x in opts.get('strip_derive', '').split(',') if x) + (() if 'keep_debug' in opts else ('Debug',))
        prefix, body, first = self.strip_prefix(it, strip_derive=strip_derive)
        if 'keep_pub' not in opts:
            body = self.strip_pub(body)
        elif 'widen_pub' in opts:
            # N0 variant: `pub(crate)` -> `pub` (single-file crate; needed where a trusted spec must mention the fields)
            body, n = re.subn(r'\bpub\s*\(crate\)', 'pub', body)
            self.norm_counts['N0_pub'] += n
        body = self.strip_inner_docs(body)
        dropped = []
        if opts.get('drop'):
            for fld in opts['drop'].split(','):
                pat = re.compile(r'(?m)^[ \t]*%s\s*:[^\n]*,[ \t]*$' % re.escape(fld))
                if not pat.search(body):
                    raise rsx.LostAnchor('%s: field %s of %s not found for N4' % (rel, fld, name))
                body = pat.sub('', body, count=1)
                dropped.append(fld)
                self.norm_counts['N4_dropped_fields'] += 1
        if 'opaque' in opts:
            # the type is used by name only: its fields are hidden from Verus (listed as assumed)
            self.emit('#[verifier::external_body]', {'kind': 'gen'})
        if 'opaque' in opts or 'reject_recursive' in opts:
            m = re.search(r'\b(?:struct|enum)\s+\w+\s*<([^{(;]*?)>\s*(?:\{|\(|where|;)', body)
            if m:
                for prm in m.group(1).split(','):
                    prm = prm.strip().split(':')[0].strip()
                    if prm and not prm.startswith("'"):
                        self.emit('#[verifier::reject_recursive_types(%s)]' % prm, {'kind': 'gen'})
        if opts.get('external_derive'):
            # the derived impls are left outside Verus; what is assumed about them is stated (and listed as trusted)
            self.emit('#[verifier::external_derive]', {'kind': 'gen'})
        for p in prefix:
            self.emit(p, {'kind': 'src-attr', 'file': rel})
        self.emit_src(body, rel, first)
        self.items.append({'item': '%s %s' % (kind, name), 'file': rel, 'lines': [it.line_start, it.line_end],
                           'sha256': it.sha256, 'dropped_fields': dropped})

    def do_impl(self, rel, want):
        f = self.rf(rel)
        it = f.find_impl(want)
        prefix, body, first = self.strip_prefix(it, keep_derive=False)
        body = self.strip_pub(body)
        self.emit_src(body, rel, first, fn=want)
        self.items.append({'item': 'impl ' + want, 'file': rel, 'lines': [it.line_start, it.line_end], 'sha256': it.sha256})

    # ------------------------------------------------------------------
    def do_fn(self, is_stub, rel, impl_match, name, opts, sections):
        if self.canary == 'exit' and not is_stub and 'no_canary' not in opts:
            # the function itself, unchanged (callers must see its real contract) ...
            saved = self.canary
            self.canary = None
            self._do_fn(is_stub, rel, impl_match, name, opts, sections, record=True)
            # ... and a renamed twin carrying `ensures false` (inherent fns only: a trait impl cannot hold a twin)
            self.canary = saved
            if ('>for' in impl_match or ' for ' in impl_match or '~for~' in impl_match) and 'inherent' not in opts:
                self.functions[-1]['no_exit_canary'] = True
                return
            self._do_fn(is_stub, rel, impl_match, name, opts, sections, record=False, twin=True)
            return
        self._do_fn(is_stub, rel, impl_match, name, opts, sections)

    def _do_fn(self, is_stub, rel, impl_match, name, opts, sections, record=True, twin=False):
        # a trait impl is written without blanks in the directive: `From<A>forB` means `From<A> for B`
        m = re.match(r'^(.*>)for([A-Z]\w*)$', impl_match)
        if m:
            impl_match = '%s for %s' % (m.group(1), m.group(2))
        impl_match = impl_match.replace('~', ' ')
        f = self.rf(rel)
        if 'optional' in opts:
            # a helper that only some versions of the code have: its contract applies when it exists
            try:
                it = f.find_fn(name, impl_match)
            except rsx.LostAnchor:
                self.dropped_loop_sections.append('%s: optional function %s::%s is absent; its contract is not used' % (rel, impl_match, name))
                return
        it = f.find_fn(name, impl_match)
        qual = (impl_match + '::' if impl_match != '-' else '') + name
        qual = opts.get('as', qual)
        props = [p for p in opts.get('props', '').split(',') if p]
        if record:
            self.fn_props[qual] = props
        _, text, first = self.strip_prefix(it, keep_derive=False)
        if 'keep_pub' not in opts:
            text = self.strip_pub(text)
        text = self.n2_ref_patterns(text)
        if opts.get('dropinit'):
            # N4 (continued): initialisers of dropped struct fields are dropped from struct literals
            for fld in opts['dropinit'].split(','):
                text, n = re.subn(r'(?m)^[ \t]*%s\s*:[^\n]*,[ \t]*$' % re.escape(fld), '', text)
                if n == 0:
                    raise rsx.LostAnchor('%s: no initialiser of dropped field %s in %s' % (rel, fld, qual))
                self.norm_counts['N4_dropped_fields'] += n
        # impl header
        header = None
        item_ty = None
        if it.header:
            generics, trait, ty, where = rsx.parse_impl_header(it.header)
            if trait is not None and 'inherent' in opts:
                # N3
                self.norm_counts['N3_iterator_impl'] += 1
                imp = f.find_impl('%s for %s' % (trait, ty))
                m = re.search(r'type\s+Item\s*=\s*([^;]+);', imp.text)
                if m:
                    item_ty = m.group(1).strip()
                    text = text.replace('Self::Item', item_ty)
                header = 'impl%s %s %s' % (generics, ty, where)
            elif trait is not None:
                header = 'impl%s %s for %s %s' % (generics, trait, ty, where)
                # associated types of the trait impl are part of its header as far as typing goes
                imp = f.find_impl('%s for %s' % (trait, ty))
                assoc = re.findall(r'(?m)^\s*type\s+\w+\s*=\s*[^;]+;', imp.text)
                if assoc:
                    header += ' {\n' + '\n'.join(a.strip() for a in assoc)
                    header = header + '\n//__ASSOC__'
            else:
                header = 'impl%s %s %s' % (generics, ty, where)
        # parameter renames are followed: the directive records the names the contract was written against
        # (`params=a,b`); when the real signature has the same number of parameters under other names, the contract's
        # identifiers are renamed accordingly (token-level) - the contract is positional, not nominal
        if opts.get('params') is not None:
            want = [x for x in opts['params'].split(',') if x]
            have = self.param_names(text)
            if have is not None and len(have) == len(want) and have != want and len(set(have)) == len(have):
                ren = {o: n for o, n in zip(want, have) if o != n}
                tmp = {o: '__vp_%d__' % i for i, o in enumerate(ren)}
                new_sections = []
                for sec in sections:
                    sec2 = dict(sec)
                    ls = []
                    for ln in sec['lines']:
                        code, sep, tail = ln.partition('//#')
                        for o, t in tmp.items():
                            code = re.sub(r'(?<![\w.])%s\b' % re.escape(o), t, code)
                        for o, t in tmp.items():
                            code = code.replace(t, ren[o])
                        ls.append(code + sep + tail)
                    sec2['lines'] = ls
                    new_sections.append(sec2)
                sections = new_sections
                if record:
                    self.dropped_loop_sections.append('%s: parameters of %s renamed %s: contract follows positionally' % (
                        rel, qual, ', '.join('%s->%s' % kv for kv in ren.items())))
        # N5: name the return value
        ret = opts.get('ret', 'r')
        text = self.n5_name_return(text, ret)
        if twin:
            text = re.sub(r'\bfn\s+%s\b' % re.escape(name), 'fn %s__canary' % name, text, count=1)
        # N8: `fn f(mut self, ..) { B }` -> `fn f(self, ..) { let mut __self = self; B[self := __self] }`
        # (Verus rejects a `mut self` receiver; moving the receiver into a mutable local is what the binding mode means)
        if not is_stub:
            mm, _ = rsx.mask(text)
            k = re.search(r'\bfn\b', mm).start()
            bo = rsx.first_open_brace(mm, k)
            msig = re.search(r'\(\s*mut\s+self\b', mm[k:bo])
            if msig:
                sig = text[:bo]
                sig = sig[:k + msig.start()] + re.sub(r'\(\s*mut\s+self\b', '(self', sig[k + msig.start():], count=1)
                body = text[bo:]
                mbody = mm[bo:]
                out, last = [], 0
                for m2 in re.finditer(r'\bself\b', mbody):
                    out.append(body[last:m2.start()])
                    out.append('__self')
                    last = m2.end()
                out.append(body[last:])
                body = ''.join(out)
                text = sig + '{ let mut __self = self;' + body[1:]
                self.norm_counts['N8_mut_self_receiver'] = self.norm_counts.get('N8_mut_self_receiver', 0) + 1
        # N9: `for (i, x) in E.enumerate() { B }` -> `{ let mut i: usize = 0; for x in E { B i += 1; } }`
        # (Verus has no specification for `Iterator::enumerate`, and a provided trait method cannot be given one).
        # Only where the directive asks for it (`enumerate=<k>`), only when B contains no `continue` (the counter
        # would be skipped) and no nested loop labels; anything else is a lost anchor (exit 2).
        if opts.get('enumerate') and not is_stub:
            for kk in sorted((int(x) for x in opts['enumerate'].split(',')), reverse=True):
                text = self.n9_enumerate(text, kk, rel, qual)
        # N11: `for x in E { B }` -> `{ let mut __it_k = IntoIterator::into_iter(E); while let Some(x) = __it_k.next() { B } }`
        # where the directive asks for it (`whilelet=<k>`): a `for` loop left by `break` tells Verus nothing about
        # whether the iterator ran dry; the `while let` form (what `for` means) takes an `ensures` that says it
        if opts.get('whilelet') and not is_stub:
            for kk in sorted((int(x) for x in opts['whilelet'].split(',')), reverse=True):
                text = self.n11_whilelet(text, kk, rel, qual)
        # N6: name the ghost iterator of a `for` loop where the contract asks for it
        for sec in sections:
            if sec['sec'] == 'loop' and sec.get('opts', {}).get('iter'):
                lps = rsx.fn_loops(text)
                if 1 <= sec['k'] <= len(lps) and lps[sec['k'] - 1]['kw'] == 'for':
                    text = self.n6_name_for_iter(text, sec['k'], sec['opts']['iter'], rel, qual)
        masked, _ = rsx.mask(text)
        fn_kw = re.search(r'\bfn\b', masked).start()
        body_open = rsx.first_open_brace(masked, fn_kw)
        body_close = rsx.match_close(masked, body_open)
        loops = rsx.fn_loops(text)
        self.loop_counts[qual] = len(loops)
        if record and not is_stub:
            # syntactic census obligations (facts about the shape of the real body, not solver obligations);
            # `census_props=` tags them with other properties than the function's contract clauses
            cprops = [p for p in opts.get('census_props', '').split(',') if p] or props
            if 'maxloops' in opts:
                ok = len(loops) <= int(opts['maxloops'])
                self.syntactic.append((qual, 'census/at-most-%s-loops' % opts['maxloops'], ok,
                                       '%d loop(s) in the body' % len(loops), cprops, (rel, it.line_start)))
            if 'calls' in opts:
                for spec in opts['calls'].split(','):
                    callee, want = spec.split(':')
                    n = len(re.findall(r'\b%s\s*\(' % re.escape(callee), masked[body_open:body_close]))
                    self.syntactic.append((qual, 'census/calls-%s-exactly-%s-times' % (callee, want), n == int(want),
                                           '%d call site(s) of %s in the body' % (n, callee), cprops, (rel, it.line_start)))
            if 'norecursion' in opts:
                n = len(re.findall(r'\b%s\s*\(' % re.escape(name), masked[body_open:body_close]))
                self.syntactic.append((qual, 'census/not-self-recursive', n == 0, '%d self call(s)' % n, cprops, (rel, it.line_start)))
        inserts = []  # (offset, order, section dict)
        if self.canary and not is_stub and 'no_canary' not in opts:
            sections = self.add_canary(sections)
        for sec in sections:
            kind = sec['sec']
            if kind == 'spec':
                off = body_open
            elif kind == 'entry':
                off = body_open + 1
            elif kind in ('loop', 'loopbody', 'loopend'):
                k = sec['k']
                if k < 1 or k > len(loops):
                    # the function no longer has this loop: its loop clauses are dropped (recorded), the function's own
                    # contract is still checked against the new body - a body that needs the loop fails its ensures
                    self.dropped_loop_sections.append('%s: %s has %d loop(s), contract names loop %d' % (rel, qual, len(loops), k))
                    continue
                off = loops[k - 1]['close'] if kind == 'loopend' else loops[k - 1]['open'] + (1 if kind == 'loopbody' else 0)
            elif kind == 'before':
                calls = [m.start() for m in re.finditer(r'\b%s\s*\(' % re.escape(sec['callee']), masked[body_open:body_close])]
                if sec.get('of') and len(calls) != sec['of'] and sec['k'] <= len(calls):
                    # another number of call sites: the k-th call may be a different statement now - the ghost code is
                    # dropped (recorded), exactly as when the call is gone; the rest of the function is still checked
                    self.dropped_loop_sections.append('%s: %s has %d call(s) of %s, the ghost code in front of call %d was written for %d: dropped' % (
                        rel, qual, len(calls), sec['callee'], sec['k'], sec['of']))
                    continue
                if sec['k'] < 1 or sec['k'] > len(calls):
                    # the call the ghost code was written for is gone: its assertions are dropped (recorded); the
                    # function's own contract is still checked
                    self.dropped_loop_sections.append('%s: %s has %d call(s) of %s, contract names call %d' % (rel, qual, len(calls), sec['callee'], sec['k']))
                    continue
                c = body_open + calls[sec['k'] - 1]
                # the statement holding the call: walk back to the nearest `;`, `{` or `}` that is not inside brackets
                # the call sits in (method chains may span lines); ghost code goes right behind it.  A position that
                # is not a statement boundary (a match arm, a struct literal) fails to parse: tool trouble, never a violation
                depth, q = 0, c - 1
                while q > body_open:
                    ch = masked[q]
                    if ch in ')]':
                        depth += 1
                    elif ch in '([':
                        if depth > 0:
                            depth -= 1
                        # else: the call is an argument of an enclosing call - keep walking back
                    elif ch in ';{}' and depth == 0:
                        break
                    q -= 1
                off = q + 1
            elif kind == 'tail':
                off = rsx.fn_tail_offset(text)
                if off is None:
                    raise rsx.LostAnchor('%s: %s has no tail expression' % (rel, qual))
            elif kind == 'exit':
                # ghost code at the end of a body that ends with a statement (no tail expression)
                if rsx.fn_tail_offset(text) is not None:
                    raise rsx.LostAnchor('%s: %s now ends with a tail expression' % (rel, qual))
                off = body_close
            inserts.append((off, sec))
        if is_stub and ('unmut' in opts or re.search(r'\(\s*mut\s+self\b', text)):
            # stubbed signatures only: `mut self` / `mut x: T` binding modes are irrelevant without a body
            text, n = re.subn(r'\(\s*mut\s+self\b', '(self', text, count=1)
            self.norm_counts['N7_stub_mut_binding'] = self.norm_counts.get('N7_stub_mut_binding', 0) + n
            masked, _ = rsx.mask(text)
            fn_kw = re.search(r'\bfn\b', masked).start()
            body_open = rsx.first_open_brace(masked, fn_kw)
        if is_stub:
            # keep signature only
            spec = [s for s in sections if s['sec'] == 'spec']
            sig = text[:body_open].rstrip()
            if header:
                self.emit(header.replace('\n//__ASSOC__', '') if '//__ASSOC__' in header else header + ' {', {'kind': 'gen'})
            self.emit('#[verifier::external_body]', {'kind': 'gen'})
            self.emit_src(sig, rel, first, fn=qual)
            for s in spec:
                self.emit_section(qual, s, props)
            self.emit('{ unimplemented!() }', {'kind': 'gen'})
            if header:
                self.emit('}', {'kind': 'gen'})
            self.stubs.append({'fn': qual, 'file': rel, 'lines': [it.line_start, it.line_end], 'sha256': it.sha256})
            return
        inserts.sort(key=lambda x: x[0])
        fn_attr = '#[verifier::exec_allows_no_decreases_clause]' if 'nodecreases' in opts else None
        if header:
            self.emit(header.replace('\n//__ASSOC__', '') if '//__ASSOC__' in header else header + ' {', {'kind': 'gen'})
        if fn_attr:
            self.emit(fn_attr, {'kind': 'gen'})
        pos = 0
        cur_line = first
        for off, sec in inserts:
            seg = text[pos:off]
            if seg:
                # segment may end mid-line; emit as lines, the injected section starts a new line
                self.emit_src(seg.rstrip('\n') if seg.endswith('\n') else seg, rel, cur_line, fn=qual)
                cur_line += seg.count('\n')
            self.emit_section(qual, sec, props)
            pos = off
        self.emit_src(text[pos:], rel, cur_line, fn=qual)
        if header:
            self.emit('}', {'kind': 'gen'})
        if record:
            self.functions.append({'fn': qual, 'file': rel, 'lines': [it.line_start, it.line_end], 'sha256': it.sha256,
                                   'closures': count_closures(it.text),
                                   'loops': len(loops), 'props': props, 'maxloops': opts.get('maxloops')})

    def do_identcount(self, ident, toks):
        """Syntactic census over the crate: the identifier occurs exactly n times in each listed file and nowhere
        else under `root=<dir>` (comments and strings are masked out; *_test.rs files are skipped)."""
        opts = _opts(toks)
        props = [p for p in opts.pop('props', '').split(',') if p]
        root = opts.pop('root', 'abasic-core/src')
        expected = {k: int(v) for k, v in opts.items() if k.endswith('.rs')}
        ignore = set(x for x in opts.pop('ignore', '').split(',') if x)     # files another unit's directive accounts for
        partial = 'partial' in opts                                         # only the listed files are looked at
        base = os.path.join(self.repo, root)
        seen = {}
        for dp, _, files in os.walk(base):
            for fn in files:
                if not fn.endswith('.rs') or fn.endswith('_test.rs'):
                    continue
                full = os.path.join(dp, fn)
                rel = os.path.relpath(full, self.repo)
                masked, _ = rsx.mask(open(full, encoding='utf-8').read())
                # test modules do not count
                rf = rsx.RustFile(full, rel)
                spans = rf._test_mod_spans()
                n = len([m for m in re.finditer(r'\b%s\b' % re.escape(ident), masked) if not any(a <= m.start() < b for a, b in spans)])
                if n:
                    seen[rel] = n
        files = sorted(set(seen) | set(expected))
        for rel in files:
            if rel in ignore or (partial and rel not in expected):
                continue
            want = expected.get(rel, 0)
            got = seen.get(rel, 0)
            self.syntactic.append(('crate', 'census/%s-occurs-%d-times-in-%s' % (ident, want, rel), got == want,
                                   '%d occurrence(s) of `%s` in %s (expected %d)' % (got, ident, rel, want), props, (rel, 0)))

    def do_guardcensus(self, ident, rel, opts):
        """Syntactic census of the places where a switch is READ in an `if` condition (file `rel`): each such `if` has no
        `else`, and its block is a side block - no return / break / continue / `?`, no assignment, and calls only the
        functions named in `allow=` - so control rejoins the unguarded path whatever the switch says.  `sites=n` pins
        the number of such guards."""
        props = [p for p in opts.get('props', '').split(',') if p]
        allow = set(x for x in opts.get('allow', '').split(',') if x)
        f = self.rf(rel)
        masked = f.masked
        spans = f._test_mod_spans()
        sites = []
        for m in re.finditer(r'\b%s\b' % re.escape(ident), masked):
            if any(a <= m.start() < b for a, b in spans):
                continue
            # inside an `if` condition?  walk back to the nearest `if` with no `{`, `}` or `;` in between
            k = m.start()
            seg_start = max(masked.rfind('{', 0, k), masked.rfind('}', 0, k), masked.rfind(';', 0, k)) + 1
            mi = None
            for mm in re.finditer(r'\bif\b', masked[seg_start:k]):
                mi = mm
            if mi is None:
                continue
            # the block the `if` guards: searched from the `if` keyword (the identifier may sit inside parentheses)
            bo = rsx.first_open_brace(masked, seg_start + mi.start())
            if bo < 0:
                raise rsx.LostAnchor('%s: cannot find the block guarded by the `if` on %s (guardcensus)' % (rel, ident))
            bc = rsx.match_close(masked, bo)
            block = masked[bo + 1:bc]
            line = masked.count('\n', 0, k) + 1
            problems = []
            if re.match(r'\s*else\b', masked[bc + 1:bc + 12]):
                problems.append('has an else branch')
            if re.search(r'\b(return|break|continue)\b', block):
                problems.append('leaves the block early (return / break / continue)')
            if '?' in block:
                problems.append('propagates an error out of the block (`?`)')
            # `let p = e` / `if let p = e` bind locals; anything else with a bare `=` (or `op=`) writes state
            if re.search(r'(?<![=!<>])=(?![=>])', re.sub(r'\blet\b[^=;{}]*=(?!=)', 'let ', block)):
                problems.append('assigns inside the block')
            callees = set(re.findall(r'\b([A-Za-z_]\w*)\s*!?\s*\(', block)) - {'if', 'match', 'while', 'for', 'Some', 'Ok', 'Err'}
            extra = sorted(callees - allow)
            if extra:
                problems.append('calls %s' % ', '.join(extra))
            sites.append((line, problems))
        for (line, problems) in sites:
            self.syntactic.append(('crate', 'census/the-%s-guard-at-%s-is-a-side-block' % (ident, rel), not problems,
                                   'guard on `%s` at %s:%d: %s' % (ident, rel, line, '; '.join(problems) or 'side block'), props, (rel, line)))
        if 'sites' in opts:
            self.syntactic.append(('crate', 'census/%s-guards-%d-blocks-in-%s' % (ident, int(opts['sites']), rel), len(sites) == int(opts['sites']),
                                   '%d guarded block(s) on `%s` in %s (expected %s)' % (len(sites), ident, rel, opts['sites']), props, (rel, 0)))

    def do_census(self, rel, impl_match, name, opts):
        """Syntactic census of a function that is NOT brought under Verus: loop count / call-site counts only."""
        f = self.rf(rel)
        impl_match = impl_match.replace('~', ' ')
        it = f.find_fn(name, impl_match)
        qual = (impl_match + '::' if impl_match != '-' else '') + name
        props = [p for p in opts.get('props', '').split(',') if p]
        masked, _ = rsx.mask(it.text)
        fn_kw = re.search(r'\bfn\b', masked).start()
        bo = rsx.first_open_brace(masked, fn_kw)
        bc = rsx.match_close(masked, bo)
        loops = rsx.fn_loops(it.text)
        if 'maxloops' in opts:
            self.syntactic.append((qual, 'census/at-most-%s-loops' % opts['maxloops'], len(loops) <= int(opts['maxloops']),
                                   '%d loop(s) in the body' % len(loops), props, (rel, it.line_start)))
        for spec in [x for x in opts.get('calls', '').split(',') if x]:
            callee, want = spec.split(':')
            n = len(re.findall(r'\b%s\s*\(' % re.escape(callee), masked[bo:bc]))
            self.syntactic.append((qual, 'census/calls-%s-exactly-%s-times' % (callee, want), n == int(want),
                                   '%d call site(s) of %s in the body' % (n, callee), props, (rel, it.line_start)))
        self.items.append({'item': 'census-only fn ' + qual, 'file': rel, 'lines': [it.line_start, it.line_end], 'sha256': it.sha256})

    def add_canary(self, sections):
        sections = [dict(s, lines=list(s['lines'])) for s in sections]
        if self.canary == 'entry':
            sections.append({'sec': 'entry', 'k': None, 'uline': 0,
                             'lines': ['    assert(false); //# __canary_entry']})
            # entry sections are emitted in order; the canary goes last so broadcast-use lines stay first
            return sections
        spec = [s for s in sections if s['sec'] == 'spec']
        if not spec:
            sections.insert(0, {'sec': 'spec', 'k': None, 'uline': 0,
                                'lines': ['    ensures false, //# __canary_exit']})
            return sections
        sp = spec[0]
        out = []
        done = False
        for ln in sp['lines']:
            m = re.match(r'^(\s*)ensures\b(.*)$', ln)
            if m and not done:
                out.append(m.group(1) + 'ensures')
                out.append(m.group(1) + '    false, //# __canary_exit')
                if m.group(2).strip():
                    out.append(m.group(1) + '    ' + m.group(2).strip())
                done = True
            else:
                out.append(ln)
        if not done:
            k = next((i for i, ln in enumerate(out) if re.match(r'^\s*decreases\b', ln)), len(out))
            out.insert(k, '    ensures false, //# __canary_exit')
        sp['lines'] = out
        return sections

    @staticmethod
    def param_names(text):
        """Names of the non-receiver parameters of the function whose source is `text` (None if a pattern is not a plain name)."""
        masked, _ = rsx.mask(text)
        mfn = re.search(r'\bfn\s+\w+\s*', masked)
        po = mfn.end()
        if masked[po] == '<':
            # skip the generic parameter list (`->` inside `Fn(..) -> T` bounds is not a closing bracket)
            d2 = 0
            while po < len(masked):
                if masked[po] == '<':
                    d2 += 1
                elif masked[po] == '>' and masked[po - 1] != '-':
                    d2 -= 1
                    if d2 == 0:
                        po += 1
                        break
                po += 1
            while masked[po].isspace():
                po += 1
        if masked[po] != '(':
            return None
        depth, j = 0, po
        while j < len(masked):
            if masked[j] in '([{<' and not (masked[j] == '<' and masked[j - 1] == '-'):
                depth += 1
            elif masked[j] in ')]}>' and not (masked[j] == '>' and masked[j - 1] in '-='):
                depth -= 1
                if depth == 0:
                    break
            j += 1
        inner = masked[po + 1:j]
        parts, depth, cur = [], 0, ''
        for ch in inner:
            if ch in '([{<':
                depth += 1
            elif ch in ')]}>':
                depth -= 1
            if ch == ',' and depth == 0:
                parts.append(cur)
                cur = ''
            else:
                cur += ch
        if cur.strip():
            parts.append(cur)
        names = []
        for prt in parts:
            prt = prt.strip()
            if re.match(r'^(&\s*(\'\w+\s+)?)?(mut\s+)?self\b', prt):
                continue
            m = re.match(r'^(?:mut\s+)?([A-Za-z_]\w*)\s*:', prt)
            if not m:
                return None
            names.append(m.group(1))
        return names

    def emit_section(self, qual, sec, props):
        """A clause is named by a trailing `//# name [props]` on its LAST line: the name covers every line
        since the previous named line.  Lines after the last name are `<section>#k`."""
        label = sec['sec'] + (str(sec['k']) if sec['k'] else '')
        lines = sec['lines']
        names = [None] * len(lines)
        cprops_l = [props] * len(lines)
        start = 0
        for k, ln in enumerate(lines):
            m = re.search(r'//#\s*([A-Za-z0-9_.\-]+)(?:\s*\[([^\]]*)\])?', ln)
            if m:
                cp = [p.strip() for p in m.group(2).split(',')] if m.group(2) else props
                for j in range(start, k + 1):
                    names[j] = m.group(1)
                    cprops_l[j] = cp
                start = k + 1
        idx = 0
        for k, ln in enumerate(lines):
            if names[k] is None:
                if ln.strip():
                    idx += 1
                cname = '%s#%d' % (label, idx)
            else:
                cname = names[k]
            self.lines.append(ln)
            self.origin.append({'kind': 'inject', 'fn': qual, 'section': label, 'clause': cname,
                                'props': cprops_l[k], 'uline': sec['uline'] + 1 + k})
            if ln.strip():
                self.clauses[(qual, label, cname)] = cprops_l[k]

    def n2_ref_patterns(self, text):
        n = 0

        def for_sub(m):
            nonlocal n
            n += 1
            x = m.group(1)
            return 'for __r_%s in %s{ let %s = *__r_%s;' % (x, m.group(2), x, x)
        text2 = re.sub(r'\bfor\s+&(\w+)\s+in\s+([^{\n]+)\{', for_sub, text)

        def iflet_sub(m):
            nonlocal n
            n += 1
            x = m.group(1)
            return 'if let Some(__r_%s) = %s{ let %s = *__r_%s;' % (x, m.group(2), x, x)
        text3 = re.sub(r'\bif\s+let\s+Some\(&(\w+)\)\s*=\s*([^{\n]+)\{', iflet_sub, text2)
        # multi-line variant: `if let Some(&x) = E\n {`
        def iflet_ml(m):
            nonlocal n
            n += 1
            x = m.group(1)
            return 'if let Some(__r_%s) = %s%s{ let %s = *__r_%s;' % (x, m.group(2), m.group(3), x, x)
        text4 = re.sub(r'\bif\s+let\s+Some\(&(\w+)\)\s*=\s*([^{\n]+)(\n\s*)\{', iflet_ml, text3)
        self.norm_counts['N2_ref_pattern'] += n
        return text4

    def n6_name_for_iter(self, text, k, name, rel, qual):
        loops = rsx.fn_loops(text)
        if k < 1 or k > len(loops) or loops[k - 1]['kw'] != 'for':
            raise rsx.LostAnchor('%s: loop %d of %s is not a `for` loop' % (rel, k, qual))
        lp = loops[k - 1]
        masked, _ = rsx.mask(text)
        depth = 0
        pos = None
        i = lp['kw_off'] + 3
        while i < lp['open']:
            ch = masked[i]
            if ch in '([':
                depth += 1
            elif ch in ')]':
                depth -= 1
            elif depth == 0 and re.match(r'\bin\b', masked[i:i + 3]) and not masked[i - 1].isalnum() and masked[i - 1] != '_':
                pos = i + 2
                break
            i += 1
        if pos is None:
            raise rsx.LostAnchor('%s: cannot find `in` of loop %d of %s' % (rel, k, qual))
        self.norm_counts['N6_named_for_iter'] = self.norm_counts.get('N6_named_for_iter', 0) + 1
        return text[:pos] + ' %s:' % name + text[pos:]

    def n9_enumerate(self, text, k, rel, qual):
        loops = rsx.fn_loops(text)
        if k < 1 or k > len(loops) or loops[k - 1]['kw'] != 'for':
            raise rsx.LostAnchor('%s: loop %d of %s is not a `for` loop (enumerate=)' % (rel, k, qual))
        lp = loops[k - 1]
        masked, _ = rsx.mask(text)
        head = masked[lp['kw_off']:lp['open']]
        m = re.match(r'for\s*\(\s*([A-Za-z_]\w*)\s*,\s*([A-Za-z_]\w*)\s*\)\s+in\s+(.*?)\.enumerate\(\s*\)\s*$', head, re.S)
        if not m:
            # the loop is no longer an enumerate loop: nothing to normalise (its contract decides whether it still fits)
            return text
        body = masked[lp['open']:lp['close'] + 1]
        i_name, x_name = m.group(1), m.group(2)
        # `continue` skips the counter: each `continue` of THIS loop (not of a loop nested in it, not labelled)
        # becomes `{ i += 1; continue; }`
        inner = [(l2['open'], l2['close']) for l2 in loops if lp['open'] < l2['open'] and l2['close'] < lp['close']]
        conts = []
        for mc in re.finditer(r'\bcontinue\b(\s*\'\w+)?\s*;', body):
            a = lp['open'] + mc.start()
            if mc.group(1):
                raise rsx.LostAnchor('%s: loop %d of %s has a labelled `continue`: N9 does not apply' % (rel, k, qual))
            if any(o < a < c for o, c in inner):
                continue
            conts.append((a, lp['open'] + mc.end()))
        e_start = lp['kw_off'] + m.start(3)
        e_end = lp['kw_off'] + m.end(3)
        expr = text[e_start:e_end]
        if conts:
            # N10: Verus' `for` does not take `continue`; the loop is written as what `for` means:
            # `let mut it = IntoIterator::into_iter(E); while let Some(x) = it.next() { .. }`
            new_head = '{ let mut %s: usize = 0; let mut __it_%s = ::core::iter::IntoIterator::into_iter(%s); while let Some(%s) = __it_%s.next() ' % (
                i_name, i_name, expr, x_name, i_name)
            self.norm_counts['N10_for_as_while_let'] = self.norm_counts.get('N10_for_as_while_let', 0) + 1
        else:
            new_head = '{ let mut %s: usize = 0; for %s in %s ' % (i_name, x_name, expr)
        # keep the line structure: header may span lines; pad with the same number of newlines
        pad = text[lp['kw_off']:lp['open']].count('\n') - new_head.count('\n')
        new_head += '\n' * max(0, pad)
        btxt = text[lp['open']:lp['close']]
        for a, b in sorted(conts, reverse=True):
            ra, rb = a - lp['open'], b - lp['open']
            btxt = btxt[:ra] + '{ %s += 1; continue; }' % i_name + btxt[rb:]
        out = text[:lp['kw_off']] + new_head + btxt + ' ; %s += 1; } }' % i_name + text[lp['close'] + 1:]
        self.norm_counts['N9_enumerate_counter'] = self.norm_counts.get('N9_enumerate_counter', 0) + 1
        return out

    def n11_whilelet(self, text, k, rel, qual):
        loops = rsx.fn_loops(text)
        if k < 1 or k > len(loops) or loops[k - 1]['kw'] != 'for':
            raise rsx.LostAnchor('%s: loop %d of %s is not a `for` loop (whilelet=)' % (rel, k, qual))
        lp = loops[k - 1]
        masked, _ = rsx.mask(text)
        head = masked[lp['kw_off']:lp['open']]
        m = re.match(r'for\s+([A-Za-z_]\w*)\s+in\s+(.*?)\s*$', head, re.S)
        if not m:
            raise rsx.LostAnchor('%s: loop %d of %s does not bind a plain name (whilelet=)' % (rel, k, qual))
        body = masked[lp['open']:lp['close'] + 1]
        if re.search(r"\b(continue|break)\s*'\w+", body):
            raise rsx.LostAnchor('%s: loop %d of %s has a labelled jump: N11 does not apply' % (rel, k, qual))
        expr = text[lp['kw_off'] + m.start(2):lp['kw_off'] + m.end(2)]
        new_head = '{ let mut __it_%d = ::core::iter::IntoIterator::into_iter(%s); while let Some(%s) = __it_%d.next() ' % (
            k, expr, m.group(1), k)
        pad = text[lp['kw_off']:lp['open']].count('\n') - new_head.count('\n')
        new_head += '\n' * max(0, pad)
        self.norm_counts['N11_for_as_while_let'] = self.norm_counts.get('N11_for_as_while_let', 0) + 1
        return text[:lp['kw_off']] + new_head + text[lp['open']:lp['close'] + 1] + ' }' + text[lp['close'] + 1:]

    def n5_name_return(self, text, ret):
        masked, _ = rsx.mask(text)
        fn_kw = re.search(r'\bfn\b', masked).start()
        body_open = rsx.first_open_brace(masked, fn_kw)
        sig = masked[:body_open]
        # find `->` at paren depth 0 after the parameter list
        po = sig.index('(', fn_kw)
        # generics may precede the paren: fn f<T: Fn(A) -> B>(..); find the param list paren at angle depth 0
        depth = 0
        k = fn_kw
        po = None
        while k < len(sig):
            ch = sig[k]
            if ch == '<':
                depth += 1
            elif ch == '>' and sig[k - 1] != '-':
                depth -= 1
            elif ch == '(' and depth == 0:
                po = k
                break
            k += 1
        pc = rsx.match_close(masked, po)
        m = re.match(r'\s*->\s*', sig[pc + 1:])
        if not m:
            return text
        ty_start = pc + 1 + m.end()
        w = rsx._toplevel_find(sig[ty_start:], 'where')
        # `where` search must respect parens/angles; _toplevel_find handles angles only, good enough here
        ty_end = ty_start + w if w >= 0 else body_open
        ty = text[ty_start:ty_end]
        ty_stripped = ty.rstrip()
        trailing = ty[len(ty_stripped):]
        if ty_stripped.startswith('(') and re.match(r'\(\s*\w+\s*:', ty_stripped):
            return text
        self.norm_counts['N5_named_return'] += 1
        return text[:ty_start] + '(%s: %s)' % (ret, ty_stripped) + trailing + text[ty_end:]


def _opts(tokens):
    o = {}
    for t in tokens:
        if '=' in t:
            k, v = t.split('=', 1)
            o[k] = v
        else:
            o[t] = True
    return o


if __name__ == '__main__':
    g = Gen(sys.argv[1])
    sys.stdout.write(g.run())
