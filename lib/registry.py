"""Which units carry which property.  A unit listed under a property is run by that property's
check; only obligations tagged with the property id are reported by it."""

PROPS = {
    'C04': {
        'verus': ['program_lines', 'program_state', 'interp_api'],
        'kani': ['line_number_parser'],
        'level': 'proof',
        'design_ref': 'DESIGN.md §5 U1, §6 C04',
    },
    'C01': {
        'verus': ['program_lines', 'program_state', 'interp_api', 'source_map', 'tokenizer_ranges', 'statements', 'arrays_map', 'expressions', 'data_parser'],
        'kani': ['rng', 'arrays', 'tokenizer_matchers'],
        'level': 'proof',
        'design_ref': 'DESIGN.md §6 C01',
    },
    'C02': {
        'verus': ['expressions'],
        'kani': ['operators'],
        'level': 'proof',
        'design_ref': 'DESIGN.md §5 K2, §6 C02',
    },
    'C03': {
        'verus': ['program_lines', 'program_state', 'data_cursor', 'variables', 'statements', 'expressions'],
        'kani': ['arrays', 'operators', 'loop_stack'],
        'level': 'proof',
        'design_ref': 'DESIGN.md §6 C03',
    },
    'C05': {
        'verus': ['source_map', 'tokenizer_ranges', 'analyzer_run', 'analyzer_kinds'],
        'kani': ['tokenizer_matchers'],
        'level': 'proof',
        'design_ref': 'DESIGN.md §5 U5, §6 C05',
    },
    'C13': {
        'verus': ['tokenizer_ranges', 'source_map', 'data_parser'],
        'kani': ['tokenizer_matchers'],
        'level': 'proof',
        'design_ref': 'DESIGN.md §5 U11/K5, §6 C13',
    },
    'C12': {
        'verus': ['line_cruncher', 'tokenizer_ranges', 'data_parser'],
        'kani': ['tokenizer_matchers'],
        'level': 'proof',
        'design_ref': 'DESIGN.md §5 U4/K5, §6 C12',
    },
    'C06': {
        'verus': ['analyzer_kinds', 'program_state', 'expressions'],
        'kani': ['operators', 'expr_agreement'],
        'level': 'proof',
        'design_ref': 'DESIGN.md §5 U7/K2, §6 C06',
    },
    'C08': {
        'verus': ['program_state', 'interp_api', 'statements', 'data_parser'],
        'kani': ['operators'],
        'level': 'proof',
        'design_ref': 'DESIGN.md §6 C08',
    },
    'C19': {
        'verus': ['web_adapter', 'interp_api'],
        'kani': [],
        'level': 'proof',
        'design_ref': 'DESIGN.md §5 U9, §6 C19',
    },
    'C07': {
        'verus': ['program_state', 'interp_api', 'expressions', 'statements'],
        'kani': [],
        'level': 'proof',
        'design_ref': 'DESIGN.md §6 C07',
    },
    'C09': {
        'verus': ['program_state', 'interp_api', 'line_cruncher', 'statements'],
        'kani': [],
        'level': 'proof',
        'design_ref': 'DESIGN.md §6 C09',
    },
    'C10': {
        'verus': ['program_lines', 'program_state', 'interp_api'],
        'kani': ['run_command'],
        'level': 'proof',
        'design_ref': 'DESIGN.md §6 C10',
    },
    'C11': {
        'verus': ['program_lines', 'program_state', 'interp_api'],
        'kani': ['loop_stack'],
        'level': 'proof',
        'design_ref': 'DESIGN.md §6 C11',
    },
    'C16': {
        'verus': ['program_state', 'variables', 'statements', 'arrays_map', 'expressions'],
        'kani': ['arrays', 'operators', 'loop_stack'],
        'level': 'proof',
        'design_ref': 'DESIGN.md §6 C16',
    },
    'C17': {
        'verus': ['interp_api', 'statements', 'expressions'],
        'kani': [],
        'level': 'proof',
        'design_ref': 'DESIGN.md §6 C17',
    },
    'C15': {
        'verus': ['cli_options', 'stdio_printer', 'analyzer_run', 'interp_api'],
        'kani': [],
        'level': 'proof',
        'design_ref': 'DESIGN.md §5 U14, §6 C15',
    },
    'C18': {
        'verus': [],
        'kani': ['rng'],
        'level': 'proof',
        'design_ref': 'DESIGN.md §5 K1, §6 C18',
    },
}

# Clauses of each property this family leaves undecided here (reported verbatim in the evidence).
UNDECIDED = {
    'C04': [
        "LIST's text (ProgramLines::list: Display/format!/join) is outside both verifiers",
        "the edit path (evaluate_impl / start_evaluating / command words) is proved against parse_line_number and the tokenizer as uninterpreted functions of the submitted text",
        "line-number prefix parsing overflow clause rests on std's str::parse::<u64>",
    ],
    'C02': ["precedence is decided as maximal munch per tier plus the tier call census (each tier parses its operands with the next tighter tier); left-to-right grouping is decided as the fold order of each tier over uninterpreted operator functions; value-level agreement with a reference parser for whole expressions is not decided (CBMC cannot execute a 5-token expression through Interpreter)", "ABS / INT (closures in evaluate_function_call), ^ values (powf), PRINT number formatting (f64 Display): undecided", "* and / values beyond the stated small-integer domain: the SAT back end does not decide two 64-bit float multiplier circuits in budget"],
    'C01': ["panic-freedom is decided for the statement and expression evaluators (units statements, expressions; PRINT and user-defined function calls included), the command words and the edit path (unit interp_api), relative to the assumed leaf contracts end_loop (f64 addition total), next_data_element (closure) and the links through borrowing temporaries; for the tokenizer it is decided for the driver, the punctuation / blank / identifier matchers; string-literal, numeral, REM, DATA matchers are undecided; the DATA item parser is proved panic-free (unit data_parser) relative to total String / char primitives", "native stack exhaustion by nested parentheses: no stack model in either tool", "get_line_with_pointer_caret (fmt): undecided"],
    'C03': ["statement dispatch as a whole, FOR/NEXT arithmetic in doubles (end_loop), DIM/array statements: undecided; decided pieces of the anchored mechanisms only - this is not a differential check against a reference interpreter", "IF/ELSE interplay: decided for GOSUB (a GOSUB directly followed by ELSE does not return in front of it); a FOR in a THEN clause that has an ELSE is not covered"],
    'C05': ["SourceFileAnalyzer::run / analyze_lines / populate_symbol_access_warnings are proved (after normalisations N9, N10) to keep every stored line mapped to the file line that defined it, which makes the `unwrap()` and the `panic!` of the mapping step unreachable; the whole statement and expression analyzer (statement_analyzer.rs, expression_analyzer.rs: 38 functions, unit analyzer_kinds) is proved to keep the stored lines, keep the cursor inside its stored line and record only token positions of stored lines. ASSUMED: the links through the two borrowing temporaries; what an analysis ERROR carries (not the DATA-coercion kind; an explicit position is a token position) - Verus does not model the error conversion done by the `?` operator, so errors that went through `check_number()?` are opaque; the tokenizer as the analyzer calls it (one byte range per token); the symbol table (HashMap entry API) records the position it is given and every warning names a recorded position", "SourceFileAnalyzer::analyze (split / map / collect), one token list per file line, and that the per-line lists carry the tokenizer's ranges: not stated", "that registered token ranges lie within the line on char boundaries is C13's business (partly decided there)"],
    'C13': ["the complex matchers (keywords via chomp_any_keyword, string literals, numerals, REM, DATA, identifiers) enter as ASSUMED contracts (decline without moving / consume a non-empty in-line stretch / fail without moving with an in-line position); chomp_keyword and chomp_number are checked against them by Kani for bounded input lengths (quick tier), chomp_string and chomp_remark in the thorough tier (ASCII, <= 6 bytes); the DATA matcher not at all", "character boundaries, ranges ENDING on a non-blank byte for every token kind, REM/DATA extending to the end of their text, and the re-tokenization clause (tokenizing the text of a range yields that one token) are undecided", "remaining_tokens / remaining_tokens_and_ranges (for-loops over `&mut self` as an iterator) are outside Verus; the ordering lemma is stated for two consecutive next() calls"],
    'C12': ["identifier scanning with keyword lookahead, numerals, the DATA branch of the tokenizer (String::from_utf8 of the rest of the line) and the composition in Tokenizer::next: undecided", "DATA items: decided for whitespace in front of and behind items relative to the assumed meaning of str::trim / str::parse; a parser change that uses a std method without a specification here (e.g. trim_matches with a pattern) is undecided, not detected"],
    'C06': ["statement-level agreement (assignment / FOR / NEXT / READ kind checks in statement_analyzer.rs vs statement.rs) and the converse direction need both evaluators executed: undecided", "operand parsing below the unary tier (terms, calls, array subscripts) is proved to only move the cursor forward on its line; the kinds it returns for terms are not specified", "termination of the tier loops is not claimed (exec_allows_no_decreases_clause)"],
    'C08': ["that a REJECTED reply asks again at the very same INPUT statement: decided (the cursor ends on the INPUT token the statement was dispatched from) - unit expressions proves that a successfully evaluated expression consumes no INPUT token, so the nearest INPUT in front of the parsed target is the statement's own; the link through the temporary evaluator is the assumption", "THEN/ELSE interplay: decided as `a resumed INPUT is not left in front of an ELSE` (an ELSE reached as a statement stays UNEXPECTED TOKEN, as the suite requires for multi-statement THEN clauses)", "EXTRA IGNORED: decided (appended exactly when the accepted reply held more than one item or text behind the items); REENTER: decided for the rejected reply", "reply parsing (parse_data_until_colon, the DATA item parser): never an empty list, never more bytes than the text has, and the items are those of the spec machine (quoted reply = one item verbatim; reply without separators = its trimmed text) relative to the assumed meaning of str::trim and an uninterpreted str::parse::<f64> - WHICH texts are numbers is not decided"],
    'C19': ["the page script (abasic-web/ts/main.ts) is TypeScript: its protocol is an assumption, transliterated in L_page_protocol; the start-up loader (start_evaluating per line with no error check in between) violates the adapter's precondition when a line fails - outside this check's reach", "the core side (start_evaluating / continue_evaluating / command words) is proved in unit interp_api and enters the adapter unit as stubs with the same contract text", "output record text (Display) and error text + caret: fmt, undecided"],
    'C07': ["expression evaluation (user-defined function calls included) is proved to hand the call stack back as it found it, on success and on failure (unit expressions, after normalisation N9 of the argument loop's `.enumerate()`); the statement evaluator sees the expression evaluator through the temporary-borrow link (assumed), which repeats this clause", "transparency itself (same output / input requests / outcome as the uninterrupted run) is concluded from the per-call facts - break records the location and keeps stack, loops, DATA cursor, functions; CONT restores exactly that; idle transitions keep pending reply and output - not proved as a statement about two runs", "that the host break reaches Program::break_at_current_location is proved for Interpreter::break_at_current_location; that STOP does is part of the verified dispatch in evaluate_statement"],
    'C09': ["the expression evaluator is proved to only move the cursor forward on its line (unit expressions) and enters statements through the temporary-borrow link; user-defined function calls inside expressions are outside the per-call work bound, as the property itself allows", "READ's loop over its variable list and PRINT's loop are not given a termination measure (partial correctness)"],
    'C10': ["the RUN arm of Interpreter::maybe_process_command is proved (for every stored program) to hand its first statement a state with no pending reply, no variables, no arrays, no breakpoint / frames / loops / functions / DATA cursor and the stored lines untouched; that the derived Default of Variables / Arrays is the empty map is assumed; what the run then does is the business of the other properties (this is not a comparison of two runs)", "Kani additionally executes the RUN arm for an empty stored program (bounded)"],
    'C11': ["end_loop returning NEXT WITHOUT FOR on a missing loop; next_data_element rebuilding the cursor (closure) - read, not proved"],
    'C16': ["end_loop re-push (f64 arithmetic) - read, not proved", "ValueArray / DimArray internals enter the Arrays wrapper as assumed contracts, themselves checked by Kani (bounded)"],
    'C17': ["the relational claim (identical output/inputs/errors/final state in all four configurations) is concluded from three facts, not proved as a 2-safety property: the switches are read at exactly the censused sites, each site only appends Warning / Trace records, and no statement or expression writes a switch", "a warning is issued exactly for a never-assigned variable / a missing array: decided per call (exact record counts of evaluate_expression_term and maybe_log_warning_about_undeclared_array_use); with tracing on a statement of a numbered line first appends the trace record naming its line, with tracing off none is appended: decided per statement; that the SEQUENCE of trace records equals the sequence of lines passed through is concluded from these per-statement facts, not proved over runs", "PRINT, user-defined function calls and the command words are proved not to write the switches (only TRACE / NOTRACE do, and they do nothing else)"],
    'C15': [
        "first half (a loaded file lists and runs like the same lines typed in): decided as `the program SourceFileAnalyzer::run / analyze_lines stores is the fold, in file order, of: a numbered line whose text tokenizes to at least one token is stored under its number (replacing an earlier definition); any other line stores nothing` - stated with the same two functions of a line's text (parse_line_number, tokenize from the end of the number) that the prompt path's contract uses (unit interp_api: evaluate_impl stores apply_edit(lines, n, tokens)), so for files whose lines are all numbered, non-empty and tokenizable both paths store the same map. ASSUMED: the analyzer's tokenizer entry point (remaining_tokens_and_ranges) yields the same tokens as the prompt's (remaining_tokens); that the two units' uninterpreted functions are the same functions rests on both calling the same real parse_line_number / Tokenizer. That a numbered line is never taken for a command word at the prompt is not proved. Listing / running the two equal stores identically is the business of C04 / C03",
        "second half: decided as a per-function invariant (the switches of the interpreter in use equal the command-line options after new, load_source_file, show_interpreter_output, break_interpreter, show_error), not as an equality of two process transcripts; the session loop StdioInterpreter::run_impl is proved on its real text (rustyline / ctrlc / nix linked; the line editor, handler registration, channel and stdin are assumed total): host-call typestate, options in force at the initial RUN and after NEW, all output shown every turn, no unfinished output line left unwritten on a normal end - relative to the printer contracts, of which `no unfinished line stays buffered after print_buffered_output / pop_buffered_output / eprintln, nor after print of a text that ends its line` is proved on the real functions (unit stdio_printer; flush_line_buffer = stdout write + clear assumed) and `print / eprintln write once` is assumed; StdioInterpreter::run (editor construction, history file) is outside Verus",
        "--skip-check only suppresses the diagnostics loop (proved: the interpreter and options are the same on both paths); the terminal is specified as a count of writes (every record the interpreter produced is written exactly once by show_interpreter_output, an error at least once; the unfinished last line as a flag the flushing methods clear); the text written (colored, format!) is not specified",
    ],
    'C18': [
        "the call path from the RND( token to Rng::rnd (evaluate_function_call) is under contract for state and cursor facts only: that the value printed is the one rnd returned is not stated",
        "Interpreter::randomize / JsInterpreter::randomize are one-line delegations, read not proved",
        "NaN argument to RND is outside the property; the code treats it as positive",
    ],
}

GLOBAL_TRUSTED = [
    'Verus 0.2026.09.13 + bundled Z3; vstd specifications of Vec/Option/Result/HashMap/BTreeSet',
    'Kani 0.68.0 + CBMC 6.11 + CaDiCaL; rustc front ends of both tools',
    'machine integers: overflow is a failed obligation (debug-profile semantics of the test suite)',
    'extraction: items are cut verbatim from /repo each run; normalisations N0-N11 are listed with counts',
]
