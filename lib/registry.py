"""Which units carry which property.  A unit listed under a property is run by that property's
check; only obligations tagged with the property id are reported by it."""

PROPS = {
    'C04': {
        'verus': ['program_lines'],
        'kani': [],
        'level': 'proof',
        'design_ref': 'DESIGN.md §5 U1, §6 C04',
    },
    'C18': {
        'verus': [],
        'kani': ['rng'],
        'level': 'proof',
        'design_ref': 'DESIGN.md §5 K1, §6 C18',
    },
}

# Clauses of each property this family leaves undecided here (reported verbatim in the evidence).
UNDECIDED = {
    'C04': [
        "LIST's text (ProgramLines::list: Display/format!/join) is outside both verifiers",
        "edit path in Interpreter::evaluate_impl (generic AsRef<str>, Tokenizer) is assumed: a line is stored only after remaining_tokens() returned Ok",
        "line-number prefix parsing overflow clause rests on std's str::parse::<u64>",
    ],
    'C18': [
        "the call path from the RND( token in an expression to Rng::rnd (expression.rs evaluate_function_call) is assumed",
        "Interpreter::randomize / JsInterpreter::randomize are one-line delegations, read not proved",
        "NaN argument to RND is outside the property; the code treats it as positive",
    ],
}

GLOBAL_TRUSTED = [
    'Verus 0.2026.09.13 + bundled Z3; vstd specifications of Vec/Option/Result/HashMap/BTreeSet',
    'Kani 0.68.0 + CBMC 6.11 + CaDiCaL; rustc front ends of both tools',
    'machine integers: overflow is a failed obligation (debug-profile semantics of the test suite)',
    'extraction: items are cut verbatim from /repo each run; normalisations N0-N6 are listed with counts',
]
