"""Rust source scanner and verbatim item extractor.

Works on a *masked* copy of the text (comments, string/char literal contents replaced
by blanks of equal length) so that brace matching and keyword search cannot be fooled,
and cuts the answer out of the *original* text, so nothing is ever retyped.
"""
import hashlib
import re


class LostAnchor(Exception):
    """The named item / loop / anchor does not exist in the source (tool trouble, exit 2)."""


def mask(src):
    """Return (masked, comments) where masked has the same length as src.
    comments is a list of (start, end, is_doc)."""
    out = list(src)
    n = len(src)
    i = 0
    comments = []

    def blank(a, b):
        for k in range(a, b):
            if out[k] != '\n':
                out[k] = ' '

    while i < n:
        c = src[i]
        if c == '/' and i + 1 < n and src[i + 1] == '/':
            j = src.find('\n', i)
            if j < 0:
                j = n
            is_doc = src.startswith('///', i) and not src.startswith('////', i) or src.startswith('//!', i)
            comments.append((i, j, is_doc))
            blank(i, j)
            i = j
        elif c == '/' and i + 1 < n and src[i + 1] == '*':
            depth = 1
            j = i + 2
            while j < n and depth > 0:
                if src.startswith('/*', j):
                    depth += 1
                    j += 2
                elif src.startswith('*/', j):
                    depth -= 1
                    j += 2
                else:
                    j += 1
            comments.append((i, j, src.startswith('/**', i) and not src.startswith('/**/', i)))
            blank(i, j)
            i = j
        elif c == '"' or (c in 'b' and i + 1 < n and src[i + 1] == '"' and not _ident_char(src, i - 1)):
            if c == 'b':
                i += 1
            j = i + 1
            while j < n and src[j] != '"':
                if src[j] == '\\':
                    j += 1
                j += 1
            blank(i + 1, j)
            i = j + 1
        elif c == 'r' and not _ident_char(src, i - 1) and re.match(r'r#*"', src[i:i + 12]):
            m = re.match(r'r(#*)"', src[i:])
            hashes = m.group(1)
            close = '"' + hashes
            j = src.find(close, i + len(m.group(0)))
            if j < 0:
                j = n
            blank(i + len(m.group(0)), j)
            i = j + len(close)
        elif c == "'":
            # char literal or lifetime
            if i + 1 < n and src[i + 1] == '\\':
                j = src.find("'", i + 3)
                if j < 0:
                    j = n - 1
                blank(i + 1, j)
                i = j + 1
            elif i + 2 < n and src[i + 2] == "'":
                blank(i + 1, i + 2)
                i += 3
            else:
                # multi-byte char literal such as 'é' is len 1 in python str too; lifetime otherwise
                i += 1
        else:
            i += 1
    return ''.join(out), comments


def _ident_char(s, i):
    return i >= 0 and (s[i].isalnum() or s[i] == '_')


def match_close(masked, open_idx):
    """Index of the bracket matching masked[open_idx] ('{', '(' or '[')."""
    pairs = {'{': '}', '(': ')', '[': ']'}
    o = masked[open_idx]
    c = pairs[o]
    depth = 0
    for k in range(open_idx, len(masked)):
        ch = masked[k]
        if ch == o:
            depth += 1
        elif ch == c:
            depth -= 1
            if depth == 0:
                return k
    raise LostAnchor('unbalanced %s at offset %d' % (o, open_idx))


def first_open_brace(masked, start, stop=None):
    """First '{' at paren/bracket depth 0 at or after start."""
    depth = 0
    stop = len(masked) if stop is None else stop
    k = start
    while k < stop:
        ch = masked[k]
        if ch in '([':
            depth += 1
        elif ch in ')]':
            depth -= 1
        elif ch == '{' and depth == 0:
            return k
        elif ch == ';' and depth == 0:
            return -1
        k += 1
    return -1


class Item:
    def __init__(self, src_file, kind, name, start, end, text, line_start, line_end, header=None, body_open=None):
        self.src_file = src_file
        self.kind = kind
        self.name = name
        self.start = start          # offset of first byte incl. attributes/doc comments
        self.end = end              # offset one past the last byte
        self.text = text
        self.line_start = line_start
        self.line_end = line_end
        self.header = header        # for fns: enclosing impl header text or None
        self.body_open = body_open  # for fns: offset (relative to text) of the body's '{'
        self.sha256 = hashlib.sha256(text.encode()).hexdigest()


class RustFile:
    def __init__(self, path, rel=None):
        self.path = path
        self.rel = rel or path
        with open(path, encoding='utf-8') as f:
            self.src = f.read()
        self.masked, self.comments = mask(self.src)
        self._impls = None

    def line_of(self, off):
        return self.src.count('\n', 0, off) + 1

    # ---- attribute / doc-comment prefix ---------------------------------
    def _prefix_start(self, off):
        """Walk backwards from the start of the line holding `off` over attribute and
        comment lines that directly precede the item."""
        line_start = self.src.rfind('\n', 0, off) + 1
        cur = line_start
        while cur > 0:
            prev_end = cur - 1
            prev_start = self.src.rfind('\n', 0, prev_end) + 1
            line = self.src[prev_start:prev_end].strip()
            mline = self.masked[prev_start:prev_end].strip()
            if line.startswith('#[') or line.startswith('//') or (line and not mline and not line.startswith('/*')):
                cur = prev_start
            elif mline.endswith(']') and self._in_multiline_attr(prev_start):
                cur = self._in_multiline_attr(prev_start)
            else:
                break
        return cur

    def _in_multiline_attr(self, pos):
        return 0

    # ---- impl blocks --------------------------------------------------------
    def impls(self):
        if self._impls is None:
            res = []
            for m in re.finditer(r'(?m)^[ \t]*(?:unsafe\s+)?impl\b', self.masked):
                ob = first_open_brace(self.masked, m.end())
                if ob < 0:
                    continue
                cb = match_close(self.masked, ob)
                header = ' '.join(self.src[m.start():ob].split())
                res.append({'start': m.start(), 'open': ob, 'close': cb, 'header': header})
            self._impls = res
        return self._impls

    def enclosing_impl(self, off):
        best = None
        for im in self.impls():
            if im['open'] < off < im['close']:
                if best is None or im['open'] > best['open']:
                    best = im
        return best

    # ---- lookups ---------------------------------------------------------------
    def find_fn(self, name, impl_match=None):
        """Find `fn name` whose enclosing impl header contains impl_match (or a free fn if
        impl_match is '-' / None and the fn is not inside an impl). Not inside #[cfg(test)] mods."""
        cands = []
        test_mods = self._test_mod_spans()
        for m in re.finditer(r'\bfn\s+%s\b' % re.escape(name), self.masked):
            if any(a <= m.start() < b for a, b in test_mods):
                continue
            im = self.enclosing_impl(m.start())
            if impl_match in (None, '-'):
                if im is not None:
                    continue
            else:
                if im is None or not _impl_header_matches(im['header'], impl_match):
                    continue
            cands.append((m, im))
        if len(cands) != 1:
            raise LostAnchor('%s: expected exactly one `fn %s` in impl `%s`, found %d'
                             % (self.rel, name, impl_match, len(cands)))
        m, im = cands[0]
        # start of the fn item = start of the line's first token (pub / attrs / docs)
        start = self._prefix_start(m.start())
        ob = first_open_brace(self.masked, m.end())
        if ob < 0:
            raise LostAnchor('%s: fn %s has no body' % (self.rel, name))
        cb = match_close(self.masked, ob)
        end = cb + 1
        text = self.src[start:end]
        return Item(self.rel, 'fn', name, start, end, text, self.line_of(start), self.line_of(cb),
                    header=im['header'] if im else None, body_open=ob - start)

    def find_item(self, kind, name):
        """struct / enum / const / type / static at module level (not in test mods)."""
        test_mods = self._test_mod_spans()
        pat = r'(?m)^[ \t]*(?:pub(?:\([^)]*\))?\s+)?%s\s+%s\b' % (kind, re.escape(name))
        cands = [m for m in re.finditer(pat, self.masked)
                 if not any(a <= m.start() < b for a, b in test_mods)]
        if len(cands) != 1:
            raise LostAnchor('%s: expected exactly one `%s %s`, found %d' % (self.rel, kind, name, len(cands)))
        m = cands[0]
        start = self._prefix_start(m.start())
        if kind in ('const', 'type', 'static'):
            end = self.masked.index(';', m.end()) + 1
        else:
            # struct may be `struct X;`, `struct X(..);` or `struct X {..}`
            k = m.end()
            depth = 0
            end = None
            while k < len(self.masked):
                ch = self.masked[k]
                if ch in '([':
                    depth += 1
                elif ch in ')]':
                    depth -= 1
                elif ch == ';' and depth == 0:
                    end = k + 1
                    break
                elif ch == '{' and depth == 0:
                    end = match_close(self.masked, k) + 1
                    break
                k += 1
            if end is None:
                raise LostAnchor('%s: cannot delimit %s %s' % (self.rel, kind, name))
        text = self.src[start:end]
        return Item(self.rel, kind, name, start, end, text, self.line_of(start), self.line_of(end - 1))

    def find_impl(self, impl_match):
        """A whole impl block (e.g. a small trait impl) verbatim."""
        cands = [im for im in self.impls() if _impl_header_matches(im['header'], impl_match, exact=True)]
        if len(cands) != 1:
            raise LostAnchor('%s: expected exactly one impl `%s`, found %d' % (self.rel, impl_match, len(cands)))
        im = cands[0]
        start = self._prefix_start(im['start'])
        end = im['close'] + 1
        return Item(self.rel, 'impl', impl_match, start, end, self.src[start:end],
                    self.line_of(start), self.line_of(end - 1), header=im['header'])

    def _test_mod_spans(self):
        spans = []
        for m in re.finditer(r'#\[cfg\(test\)\]\s*(?:pub\s+)?mod\s+\w+\s*\{', self.masked):
            ob = m.end() - 1
            spans.append((m.start(), match_close(self.masked, ob)))
        return spans


def _norm_ws(s):
    return re.sub(r'\s+', '', s)


def parse_impl_header(header):
    """-> (generics, trait or None, self type, where clause or '') as written (whitespace-normalised)."""
    h = re.sub(r'^(unsafe\s+)?impl\s*', '', header.strip())
    generics = ''
    if h.startswith('<'):
        depth = 0
        for k, ch in enumerate(h):
            if ch == '<':
                depth += 1
            elif ch == '>':
                depth -= 1
                if depth == 0:
                    generics = h[:k + 1]
                    h = h[k + 1:].strip()
                    break
    where = ''
    m = re.search(r'\bwhere\b', _outside_generics(h))
    if m:
        # position in h of the top-level `where`
        idx = _toplevel_find(h, 'where')
        where = h[idx:].strip()
        h = h[:idx].strip()
    idx = _toplevel_find(h, ' for ')
    if idx >= 0:
        trait = h[:idx].strip()
        ty = h[idx + 5:].strip()
    else:
        trait = None
        ty = h.strip()
    return generics, trait, ty, where


def _toplevel_find(s, word):
    depth = 0
    k = 0
    while k < len(s):
        ch = s[k]
        if ch == '<':
            depth += 1
        elif ch == '>':
            depth -= 1
        elif depth == 0 and s.startswith(word, k):
            return k
        k += 1
    return -1


def _impl_header_matches(header, want, exact=False):
    """`want` is either a bare type name (matches the inherent `impl<..> Name<..>`), or
    `Trait<..> for Type` (generics of the type may be omitted)."""
    _, trait, ty, _ = parse_impl_header(header)
    ty_bare = _norm_ws(_outside_generics(ty))
    if ' for ' in want:
        wtrait, wty = [x.strip() for x in want.split(' for ', 1)]
        if trait is None:
            return False
        t_ok = _norm_ws(trait) == _norm_ws(wtrait) or ('<' not in wtrait and _norm_ws(_outside_generics(trait)) == _norm_ws(wtrait))
        return t_ok and (_norm_ws(ty) == _norm_ws(wty) or ty_bare == _norm_ws(wty))
    return trait is None and ty_bare == _norm_ws(want)


def _outside_generics(s):
    out = []
    depth = 0
    for ch in s:
        if ch == '<':
            depth += 1
        elif ch == '>':
            depth -= 1
        elif depth == 0:
            out.append(ch)
    return ''.join(out)


# ---- structure inside a fn ------------------------------------------------------

LOOP_RE = re.compile(r'\b(while|loop|for)\b')


def fn_loops(text):
    """Loops of a fn item (text as extracted), in source order.
    Returns list of dicts: kw, kw_off, open (offset of '{'), close."""
    masked, _ = mask(text)
    body_open = first_open_brace(masked, masked.index('fn'))
    res = []
    for m in LOOP_RE.finditer(masked, body_open):
        kw = m.group(1)
        if kw == 'for':
            # `for<'a>` HRTB or `impl X for Y` cannot occur inside a body except in nested items
            rest = masked[m.end():m.end() + 2]
            if rest.lstrip().startswith('<'):
                continue
        ob = first_open_brace(masked, m.end())
        if ob < 0:
            continue
        res.append({'kw': kw, 'kw_off': m.start(), 'open': ob, 'close': match_close(masked, ob)})
    return res


BLOCK_KW = ('while', 'for', 'loop', 'if', 'match', 'unsafe')


def fn_tail_offset(text):
    """Offset (in text) where the tail expression of the fn body starts, or None if the
    body ends with a statement."""
    masked, _ = mask(text)
    body_open = first_open_brace(masked, masked.index('fn'))
    body_close = match_close(masked, body_open)
    # walk statements at depth 1
    k = body_open + 1
    stmt_start = k
    depth = 0
    last_stmt_end = k
    while k < body_close:
        ch = masked[k]
        if ch in '([{':
            if ch == '{' and depth == 0:
                # a block at statement level: does the statement start with a block keyword?
                head = masked[stmt_start:k].strip()
                first = re.match(r'[A-Za-z_]+', head)
                close = match_close(masked, k)
                if (first and first.group(0) in BLOCK_KW) or head == '':
                    # block-like expression statement; may continue with `else`
                    after = close + 1
                    m = re.match(r'\s*else\b', masked[after:])
                    if m:
                        k = after + m.end()
                        # else { or else if ... {
                        continue
                    # does the statement end here? (next non-blank is not an operator/method)
                    nxt = re.match(r'\s*(\S)', masked[after:body_close + 1])
                    if nxt and nxt.group(1) not in '.?;' and masked[after:body_close].strip() != '':
                        last_stmt_end = after
                        stmt_start = after
                        k = after
                        continue
                    if masked[after:body_close].strip() == '':
                        # block is the tail expression itself
                        return _skip_ws(masked, stmt_start)
                    k = after
                    continue
                k = close + 1
                continue
            k = match_close(masked, k) + 1
            continue
        if ch == ';':
            last_stmt_end = k + 1
            stmt_start = k + 1
        k += 1
    if masked[stmt_start:body_close].strip() == '':
        return None
    return _skip_ws(masked, stmt_start)


def _skip_ws(s, k):
    while k < len(s) and s[k].isspace():
        k += 1
    return k
