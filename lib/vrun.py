"""Run Verus on a generated unit and map its diagnostics to named obligations."""
import json
import os
import re
import subprocess
import sys
import time

sys.path.insert(0, os.path.dirname(__file__))
import rsx  # noqa: E402
import vgen  # noqa: E402

VERIF = os.path.dirname(os.path.dirname(os.path.abspath(__file__)))
WORK = os.path.join(os.environ.get('VERIF_OUT_DIR', VERIF), '.work')   # per-run when redirected (seeded-change runs)

VERIFICATION_FAILURES = [
    ('postcondition not satisfied', 'ensures'),
    ('precondition not satisfied', 'requires'),
    ('precondition not met', 'requires'),      # built-in obligations, e.g. `index in bounds for this access` on a slice
    ('possible arithmetic underflow/overflow', 'arith'),
    ('possible division by zero', 'arith'),
    ('assertion failed', 'assert'),
    ('invariant not satisfied at end of loop body', 'invariant-end'),
    ('invariant not satisfied before loop', 'invariant-entry'),
    ('decreases not satisfied at end of loop', 'decreases'),
    ('decreases not satisfied at continue', 'decreases'),
    ('could not prove termination', 'decreases'),
    ('possible bit shift underflow/overflow', 'arith'),
    ('loop invariant not satisfied', 'invariant-end'),
    ('recommendation not met', None),   # never an obligation
    ('unreachable', 'panic'),
    ('constructed value may fail to meet its declared type invariant', 'assert'),
]
TROUBLE_PATTERNS = [
    'Resource limit (rlimit) exceeded', 'rlimit', 'does not yet support', 'not supported', 'unsupported',
    'internal error', 'panicked', 'ill-typed', 'cannot find', 'mismatched types',
]


class UnitResult:
    def __init__(self, unit):
        self.unit = unit
        self.status = 'ok'        # ok | failed | trouble
        self.trouble = []         # strings
        self.failures = []        # dicts: obligation, props, message, rendered, fn, src
        self.gen = None
        self.verified = 0
        self.errors = 0
        self.time_ms = {}
        self.cmd = ''
        self.path = ''
        self.wall_s = 0.0
        self.canary = {}          # fn -> {'entry': bool, 'exit': bool}
        self.canary_trouble = []


def generate(unit, repo, canary=None):
    g = vgen.Gen(os.path.join(VERIF, 'units', unit + '.vu'), repo=repo)
    g.canary = canary
    text = g.run()
    return g, text


def classify(msg):
    for pat, kind in VERIFICATION_FAILURES:
        if msg.startswith(pat):
            return kind
    return 'trouble'


VERUS_TOOLCHAIN = os.environ.get('VERIF_VERUS_TOOLCHAIN', '1.98.1-x86_64-unknown-linux-gnu')


_CB = None


def _closure_baseline():
    global _CB
    if _CB is None:
        try:
            _CB = json.load(open(os.path.join(VERIF, 'baseline', 'closures.json')))
        except (OSError, ValueError):
            _CB = {}
    return _CB


_LB = None


def _loop_baseline():
    global _LB
    if _LB is None:
        try:
            _LB = json.load(open(os.path.join(VERIF, 'baseline', 'loops.json')))
        except (OSError, ValueError):
            _LB = {}
    return _LB


def build_externs(g, repo):
    """`//@ extern <package> <crate>...`: build the named dependency crates of <package> offline, from the repo's
    Cargo.lock, with the toolchain Verus itself uses (so the rlibs are loadable by it) into the work directory and
    return the rustc flags that link them.  Raises SpecError (tool trouble, exit 2) if a crate cannot be built."""
    import glob
    flags = []
    for pkg, crates in getattr(g, 'externs', []):
        tgt = os.path.join(WORK, 'extern-target')
        env = dict(os.environ, CARGO_NET_OFFLINE='true')
        env.pop('RUSTUP_TOOLCHAIN', None)
        deps = os.path.join(tgt, 'debug', 'deps')
        # the package's own `env!("CARGO_PKG_VERSION")` (cargo would set it): taken from its Cargo.toml
        try:
            m = re.search(r'^version\s*=\s*"([^"]*)"', open(os.path.join(repo, pkg, 'Cargo.toml')).read(), re.M)
            if m:
                os.environ['CARGO_PKG_VERSION'] = m.group(1)
        except OSError:
            pass
        for c in crates:
            p = subprocess.run(['cargo', '+' + VERUS_TOOLCHAIN, 'build', '--offline', '-q', '-p', c, '--target-dir', tgt],
                               cwd=os.path.join(repo, pkg), capture_output=True, text=True, env=env)
            libs = sorted(glob.glob(os.path.join(deps, 'lib%s-*.rlib' % c)), key=os.path.getmtime)
            if p.returncode != 0 or not libs:
                raise vgen.SpecError('extern crate %s (dependency of %s) was not built (cargo rc=%d): %s' % (c, pkg, p.returncode, p.stderr[-400:]))
            flags += ['--extern', '%s=%s' % (c, libs[-1])]
        flags += ['-L', 'dependency=' + deps]
    return flags


def run_verus(path, rlimit=30, threads=8, seed=None, timeout=900, extra=()):
    cmd = ['verus', path, '--error-format=json', '--output-json', '--time',
           '--multiple-errors', '30', '--rlimit', str(rlimit), '--num-threads', str(threads)] + list(extra)
    if seed is not None:
        cmd += ['--smt-option', 'smt.random_seed=%d' % seed]
    t0 = time.time()
    try:
        p = subprocess.run(cmd, capture_output=True, text=True, timeout=timeout, cwd=os.path.dirname(path))
        out, err, rc = p.stdout, p.stderr, p.returncode
    except subprocess.TimeoutExpired as e:
        out, err, rc = (e.stdout or ''), (e.stderr or '') + '\nTIMEOUT', 124
        if isinstance(out, bytes):
            out = out.decode(errors='replace')
        if isinstance(err, bytes):
            err = err.decode(errors='replace')
    return cmd, out, err, rc, time.time() - t0


def parse_diags(err):
    diags = []
    other = []
    for ln in err.split('\n'):
        ln = ln.strip()
        if ln.startswith('{') and '"$message_type"' in ln:
            try:
                diags.append(json.loads(ln))
            except ValueError:
                other.append(ln)
        elif ln:
            other.append(ln)
    return diags, other


def parse_output_json(out):
    # stdout holds one JSON object (pretty printed)
    k = out.find('{')
    if k < 0:
        return None
    try:
        return json.loads(out[k:])
    except ValueError:
        return None


def obligation_for(unit, g, d):
    """Map one error diagnostic to (kind, obligation dict) or ('trouble', text)."""
    msg = d.get('message', '')
    kind = classify(msg)
    if d.get('code'):
        return 'trouble', 'rustc %s: %s' % (d['code'].get('code'), msg)
    if kind == 'trouble':
        return 'trouble', msg
    if kind is None:
        return 'ignore', None
    spans = [_resolve_span(sp, g) for sp in d.get('spans', [])]
    prim = [s for s in spans if s.get('is_primary')]
    sec = [s for s in spans if not s.get('is_primary')]
    if not prim:
        return 'trouble', 'no primary span: ' + msg

    def org(s):
        ln = s['line_start']
        if 1 <= ln <= len(g.origin):
            return g.origin[ln - 1]
        return {'kind': 'unknown'}
    po = org(prim[0])
    fn = None
    props = None
    where = ''
    src = None
    name = None
    if kind == 'ensures' or kind.startswith('invariant') or kind == 'decreases':
        # primary span is the clause
        if po.get('kind') == 'inject':
            fn = po['fn']
            name = '%s/%s/%s' % (fn, po['section'], po['clause'])
            if kind == 'invariant-entry':
                name += '@entry'
            props = po['props']
        elif po.get('kind') == 'verbatim':
            fn = po.get('region')
            name = '%s/%s@vu:%d' % (fn, kind, po.get('uline', 0))
            props = po.get('props')
        elif po.get('kind') == 'src':
            # decreases failure reported on the loop/fn itself
            fn = po.get('fn')
            name = '%s/%s@%s:%d' % (fn, kind, po['file'], po['line'])
            src = (po['file'], po['line'])
    elif kind == 'requires':
        callee = None
        if any(str(s.get('file_name', '')).endswith('std_specs/fmt.rs') for s in sec):
            # the failed precondition is vstd's `fmt_req` of a format! / println! / eprintln! argument: that formatting a
            # value has no precondition is an ASSUMPTION of this framework (axioms per type, instantiated by hand where
            # Verus' triggers do not find them), never a clause of a property - a formatting macro that was added or
            # moved leaves the obligation undecided, it is not a violation
            return 'trouble', 'formatting-totality axiom not instantiated for a format!/print! argument (generated line %d): undecided' % prim[0]['line_start']
        for s in sec:
            so = org(s)
            if so.get('kind') == 'inject':
                callee = '%s.%s' % (so['fn'], so['clause'])
            elif so.get('kind') == 'verbatim':
                callee = '%s@vu:%d' % (so.get('region'), so.get('uline', 0))
        if callee is None:
            # callee spec lives in vstd / core (e.g. Vec index, Option::unwrap, panic)
            txt = prim[0]['text'][0]['text'].strip() if prim[0].get('text') else ''
            callee = 'std:' + _callee_hint(txt)
        if po.get('kind') == 'src':
            fn = po.get('fn')
            name = '%s/call(%s)@%s:%d' % (fn, callee, po['file'], po['line'])
            src = (po['file'], po['line'])
        elif po.get('kind') in ('inject', 'verbatim'):
            fn = po.get('fn') or po.get('region')
            name = '%s/call(%s)@vu:%d' % (fn, callee, po.get('uline', 0))
            props = po.get('props')
    elif kind in ('arith', 'assert', 'panic'):
        if po.get('kind') == 'src':
            fn = po.get('fn')
            name = '%s/%s@%s:%d' % (fn, kind, po['file'], po['line'])
            src = (po['file'], po['line'])
        elif po.get('kind') == 'inject':
            fn = po['fn']
            name = '%s/%s/%s' % (fn, po['section'], po['clause'])
            props = po['props']
        elif po.get('kind') == 'verbatim':
            fn = po.get('region')
            name = '%s/%s@vu:%d' % (fn, kind, po.get('uline', 0))
            props = po.get('props')
    if name is None:
        return 'trouble', 'cannot attribute: %s (line %d)' % (msg, prim[0]['line_start'])
    if props is None:
        props = g.fn_props.get(fn, [])
    return 'failure', {
        'obligation': ('%s/%s' % (unit, name)).replace(' ', '_'), 'unit': unit, 'fn': fn, 'kind': kind, 'props': props,
        'message': msg, 'rendered': d.get('rendered', ''), 'src': src,
        'gen_line': prim[0]['line_start'],
    }


def _resolve_span(sp, g):
    """A span inside a macro expansion (panic!, unreachable!, assert!, format!) points into the macro's own
    file; walk the expansion chain to the call site inside the generated unit file."""
    unit_file = getattr(g, 'gen_file_name', None)
    cur = sp
    hops = 0
    while cur is not None and hops < 12:
        fn = cur.get('file_name', '')
        if unit_file is None or os.path.basename(fn) == unit_file:
            if cur is not sp:
                out = dict(cur)
                out['is_primary'] = sp.get('is_primary')
                out['label'] = sp.get('label')
                return out
            return sp
        exp = cur.get('expansion')
        cur = exp.get('span') if exp else None
        hops += 1
    return sp


def _callee_hint(txt):
    m = re.search(r'\.(unwrap|expect)\(', txt)
    if m:
        return m.group(1)
    if 'panic!' in txt or 'unreachable!' in txt or 'unimplemented!' in txt or 'todo!' in txt:
        return 'panic'
    if 'assert_eq!' in txt or 'assert!' in txt:
        return 'assert'
    if '[' in txt:
        return 'index'
    return 'call'


def run_unit(unit, repo='/repo', tier='quick', rlimit=30, seed=None, canaries=True):
    os.makedirs(WORK, exist_ok=True)
    if os.environ.get('VERIF_NO_CANARY'):
        canaries = False      # evaluation runs on changed trees (seedall / benignrun): vacuity is a matter of the unchanged tree
    res = UnitResult(unit)
    t0 = time.time()
    try:
        g, text = generate(unit, repo)
    except (rsx.LostAnchor, vgen.SpecError) as e:
        res.status = 'trouble'
        res.trouble.append('%s: %s' % (type(e).__name__, e))
        res.wall_s = time.time() - t0
        return res
    g.gen_file_name = unit + '.rs'
    res.gen = g
    res.notes = list(getattr(g, 'dropped_loop_sections', []))
    path = os.path.join(WORK, unit + '.rs')
    with open(path, 'w') as f:
        f.write(text)
    res.path = path
    try:
        res.extern_flags = build_externs(g, repo)
    except vgen.SpecError as e:
        res.status = 'trouble'
        res.trouble.append('SpecError: %s' % e)
        res.wall_s = time.time() - t0
        return res
    cmd, out, err, rc, wall = run_verus(path, rlimit=rlimit, seed=seed, extra=res.extern_flags)
    res.cmd = ' '.join(cmd)
    diags, other = parse_diags(err)
    oj = parse_output_json(out)
    if oj:
        vr = oj.get('verification-results', {})
        res.verified = vr.get('verified', 0)
        res.errors = vr.get('errors', 0)
        t = oj.get('times-ms', {})
        res.time_ms = {'total': t.get('total'), 'smt_run': (t.get('smt') or {}).get('smt-run'),
                       'verify': t.get('total-verify')}
        if vr.get('encountered-vir-error'):
            res.trouble.append('verus reported a VIR error')
    elif rc != 0:
        res.trouble.append('no verification result (rc=%d): %s' % (rc, ' | '.join(other[-5:])))
    seen = set()
    for d in diags:
        if d.get('level') != 'error':
            continue
        if d.get('message', '').startswith('aborting due to'):
            continue
        k, o = obligation_for(unit, g, d)
        if k == 'trouble':
            res.trouble.append(o)
        elif k == 'failure':
            if o['obligation'] not in seen:
                seen.add(o['obligation'])
                res.failures.append(o)
    # Closures are the one construct Verus takes without being able to see through it (no call_ensures unless the
    # contract supplies one).  When a function under contract now holds MORE closures than it did on the pinned tree
    # (baseline/closures.json) and one of its obligations fails, the proof did not carry over to the rewritten body:
    # that is undecided, not a violation - `x.map(|c| c.loc)` in place of an `if let` must not raise an alarm.
    base = _closure_baseline().get(unit, {})
    now = {f['fn']: f.get('closures', 0) for f in g.functions}
    kept = []
    for o in res.failures:
        fnq = o.get('fn')
        if fnq in now and now[fnq] > base.get(fnq, 0):
            res.trouble.append('proof did not carry over: %s now goes through %d closure(s) (pinned tree: %d) that Verus has no '
                               'specification for; %s is undecided, not a violation' % (fnq, now[fnq], base.get(fnq, 0), o['obligation']))
        else:
            kept.append(o)
    res.failures = kept
    # Loop contracts are positional (`//@ loop k`).  A function that now has MORE loops than on the pinned tree
    # (baseline/loops.json) may carry its invariants on the wrong loop, and the new loop has none: a failed obligation
    # in such a function is undecided, not a violation.  (Fewer loops: the dropped sections are recorded and the
    # function's own contract still decides.)
    lbase = _loop_baseline().get(unit, {})
    lnow = {f['fn']: f.get('loops', 0) for f in g.functions if not f.get('maxloops')}   # where a `maxloops=` census is declared, the census speaks
    kept = []
    for o in res.failures:
        fnq = o.get('fn')
        if fnq in lnow and unit in _loop_baseline() and lnow[fnq] > lbase.get(fnq, 0):
            res.trouble.append('proof did not carry over: %s now has %d loop(s) (pinned tree: %d), loop contracts are positional; '
                               '%s is undecided, not a violation' % (fnq, lnow[fnq], lbase.get(fnq, 0), o['obligation']))
        else:
            kept.append(o)
    res.failures = kept
    for (fn, name, ok, detail, props, src) in g.syntactic:
        if not ok:
            res.failures.append({'obligation': ('%s/%s/%s' % (unit, fn, name)).replace(' ', '_'), 'unit': unit, 'fn': fn, 'kind': 'census',
                                 'props': props, 'message': 'syntactic census failed: ' + detail, 'rendered': detail,
                                 'src': src, 'gen_line': 0})
    if rc == 124:
        res.trouble.append('verus timeout')
    if rc != 0 and not res.failures and not res.trouble:
        res.trouble.append('verus rc=%d without diagnostics: %s' % (rc, ' | '.join(other[-5:])))
    if rc == 0 and res.errors:
        res.trouble.append('rc=0 but errors reported')
    if res.trouble:
        res.status = 'trouble'
    elif res.failures:
        res.status = 'failed'
    if canaries and res.status != 'trouble':
        run_canaries(res, unit, repo, rlimit)
    res.wall_s = time.time() - t0
    return res


def run_canaries(res, unit, repo, rlimit):
    """Vacuity guard.  Regenerate the unit twice:
       entry-canary: `assert(false)` at the entry of every function under contract must FAIL
                     (otherwise its `requires` is contradictory);
       exit-canary : `ensures false` added to every function under contract must FAIL
                     (otherwise an assumed contract / invariant on the way is contradictory)."""
    import concurrent.futures as cf
    jobs = {}
    for mode in ('entry', 'exit'):
        try:
            g, text = generate(unit, repo, canary=mode)
        except Exception as e:  # noqa
            res.canary_trouble.append('canary generation failed: %s' % e)
            return
        path = os.path.join(WORK, '%s__canary_%s.rs' % (unit, mode))
        with open(path, 'w') as f:
            f.write(text)
        jobs[mode] = (g, path)
    with cf.ThreadPoolExecutor(max_workers=2) as ex:
        futs = {mode: ex.submit(run_verus, jobs[mode][1], rlimit, 4, None, 900, getattr(res, 'extern_flags', ())) for mode in jobs}
        for mode, fut in futs.items():
            g, path = jobs[mode]
            cmd, out, err, rc, wall = fut.result()
            diags, other = parse_diags(err)
            hit = set()
            for d in diags:
                if d.get('level') != 'error':
                    continue
                if d.get('code'):
                    res.canary_trouble.append('canary %s: rustc error %s' % (mode, d.get('message')))
                    continue
                for s in d.get('spans', []):
                    ln = s['line_start']
                    if 1 <= ln <= len(g.origin):
                        o = g.origin[ln - 1]
                        if o.get('kind') == 'inject' and o.get('clause') == '__canary_' + mode:
                            hit.add(o['fn'])
            for f in g.functions:
                if f.get('no_canary') or (mode == 'exit' and f.get('no_exit_canary')):
                    continue
                res.canary.setdefault(f['fn'], {})[mode] = f['fn'] in hit
    for fn, c in res.canary.items():
        for mode, ok in c.items():
            if not ok:
                res.canary_trouble.append('vacuity: %s canary of %s did not fail' % (mode, fn))
    if res.canary_trouble:
        res.status = 'trouble'
        res.trouble.extend(res.canary_trouble)


if __name__ == '__main__':
    r = run_unit(sys.argv[1], repo=os.environ.get('VERIF_REPO', '/repo'))
    print(r.status, 'verified', r.verified, 'errors', r.errors, 'wall', round(r.wall_s, 1))
    for t in r.trouble:
        print('TROUBLE', t)
    for f in r.failures:
        print('FAIL', f['obligation'], f['props'], '-', f['message'])
    print('canary', r.canary)
