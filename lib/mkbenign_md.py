#!/usr/bin/env python3
"""benign/RESULTS.md from benign/*/benign_result.json: per behaviour-preserving change, how many of the checks it
touches answered holds / undecided / VIOLATION (the last must be zero)."""
import json, os
V = os.path.dirname(os.path.dirname(os.path.abspath(__file__)))
rows, tot = [], {0: 0, 1: 0, 2: 0}
for n in sorted(os.listdir(os.path.join(V, 'benign'))):
    p = os.path.join(V, 'benign', n, 'benign_result.json')
    if not os.path.exists(p):
        continue
    r = json.load(open(p))
    c = {0: 0, 1: 0, 2: 0}
    alarms = []
    for pid, v in sorted(r['checks'].items()):
        c[v['rc']] = c.get(v['rc'], 0) + 1
        if v['rc'] == 1:
            alarms.append(pid)
    for k in c:
        tot[k] = tot.get(k, 0) + c[k]
    files = ', '.join(os.path.basename(f) for f in r.get('files', []))
    rows.append('| %s | %s | %d | %d | %s |' % (n, files[:90], c[0], c[2], ', '.join(alarms) or '-'))
with open(os.path.join(V, 'benign', 'RESULTS.md'), 'w') as f:
    f.write('# Behaviour-preserving changes vs. checks (bin/benignrun; one row per benign/<name>/benign_result.json)\n\n')
    f.write('r1 renames + comments, r2 reordering, r3 equivalent statement-level rewrites, r4 helper extraction / loop forms.\n')
    f.write('Totals: %d check runs hold, %d undecided, %d alarms (first answers; alarms met were repaired in the machinery and re-run, see DESIGN 9a).\n\n' % (tot[0], tot[2], tot[1]))
    f.write('| change | files touched | checks that hold | undecided (exit 2) | alarms (exit 1) |\n|---|---|---|---|---|\n')
    f.write('\n'.join(rows) + '\n')
print(len(rows), tot)
