"""vcheck replay <file>: re-run what a replay file records against /repo's current working tree.
Kani: re-derive the counterexample for the recorded harness and run it natively on the real code
(`cargo kani playback`).  Verus (no counterexample): re-run the unit and report whether the named
obligation still fails.  exit 1 = still fails / reproduces, exit 0 = no longer fails, exit 2 = trouble."""
import json
import os
import sys

sys.path.insert(0, os.path.dirname(__file__))


def main(args):
    if not args:
        print('usage: vcheck replay <file>')
        return 2
    rp = json.load(open(args[0]))
    repo = os.environ.get('VERIF_REPO', '/repo')
    print('replaying %s (property %s, back end %s)' % (rp['obligation'], rp['property'], rp['backend']))
    if rp['backend'] == 'kani':
        import krun
        r = krun.run_kani(rp['unit'], repo=repo, only=[rp['harness']])
        if r['status'] == 'trouble':
            print('UNDECIDED:', r['trouble'])
            return 2
        hit = [f for f in r['failures'] if f['obligation'] == rp['obligation']] or r['failures']
        if not hit:
            print('obligation discharged on the current tree: no longer fails')
            return 0
        for f in hit:
            c = f.get('counterexample') or {}
            print('FAILS: %s at %s' % (f['message'], f['loc']))
            print('  concrete inputs:', c.get('values'))
            print('  native run on the real code:', c.get('native'))
            print('  ' + (c.get('native_output') or '').replace('\n', '\n  '))
        return 1
    import vrun
    r = vrun.run_unit(rp['unit'], repo=repo, canaries=False)
    if r.status == 'trouble':
        print('UNDECIDED:', r.trouble)
        return 2
    hit = [f for f in r.failures if f['obligation'] == rp['obligation']]
    if not hit:
        print('obligation discharged on the current tree: no longer fails')
        return 0
    for f in hit:
        print('FAILS (Verus gives no failing input): %s' % f['message'])
        print(f['rendered'])
    return 1
