"""Kani path: scratch copy of the real crate + injected cfg(kani) harness modules / contract attributes.

A .ku file:
  //@ unit <name>
  //@ flags <extra cargo-kani flags>
  //@ contract <relpath> <ImplMatch|-> <fn>     lines up to `//@ end` are inserted verbatim above the fn
  //@ module <relpath>                          lines up to `//@ end` are appended to the file as
                                                `#[cfg(kani)] mod __verif_kani_<unit> { use super::*; ... }`
  inside a module, a harness is announced by
  //# harness <fn-name> props=C18,C01 level=proof|bounded [tier=thorough] [fn=<real fn under contract>] desc="..."
"""
import hashlib
import os
import re
import shlex
import shutil
import subprocess
import sys
import tempfile
import time

sys.path.insert(0, os.path.dirname(__file__))
import rsx  # noqa: E402

VERIF = os.path.dirname(os.path.dirname(os.path.abspath(__file__)))
CRATE = 'abasic-core'

IGNORED_CHECK_PATTERNS = [
    # CBMC's default float sanity checks: BASIC arithmetic is IEEE, NaN/inf are legal values (see DESIGN §2.3)
    re.compile(r'NaN on (addition|subtraction|multiplication|division)'),
    re.compile(r'arithmetic overflow on floating-point'),
]


class KUnit:
    def __init__(self, path):
        self.path = path
        self.name = os.path.splitext(os.path.basename(path))[0]
        self.flags = []
        self.jobs = None
        self.contracts = []   # (rel, impl, fn, [lines])
        self.modules = []     # (rel, [lines])
        self.harnesses = []   # dict
        self.parse()

    def parse(self):
        raw = open(self.path).read().split('\n')
        i = 0
        while i < len(raw):
            s = raw[i].strip()
            if s.startswith('//@'):
                d = s[3:].split()
                if d[0] == 'unit':
                    self.name = d[1]
                elif d[0] == 'flags':
                    self.flags += d[1:]
                elif d[0] == 'jobs':
                    self.jobs = int(d[1])
                elif d[0] in ('contract', 'module'):
                    j = i + 1
                    body = []
                    while j < len(raw) and raw[j].strip() != '//@ end':
                        body.append(raw[j])
                        j += 1
                    if d[0] == 'contract':
                        self.contracts.append((d[1], d[2], d[3], body))
                    else:
                        self.modules.append((d[1], body))
                        for ln in body:
                            m = re.match(r'\s*//#\s*harness\s+(\w+)\s*(.*)$', ln)
                            if m:
                                h = {'name': m.group(1), 'file': d[1]}
                                for tok in shlex.split(m.group(2)):
                                    if '=' in tok:
                                        k, v = tok.split('=', 1)
                                        h[k] = v
                                h['props'] = [p for p in h.get('props', '').split(',') if p]
                                h.setdefault('level', 'bounded')
                                self.harnesses.append(h)
                    i = j
            i += 1


def prepare_scratch(unit, repo):
    """Copy the crate, inject contracts and modules. Returns (scratch_root, crate_dir, info)."""
    root = tempfile.mkdtemp(prefix='verif-kani-%s-' % unit.name)
    crate = os.path.join(root, CRATE)
    shutil.copytree(os.path.join(repo, CRATE), crate, ignore=shutil.ignore_patterns('target'))
    shutil.copy(os.path.join(repo, 'Cargo.lock'), os.path.join(crate, 'Cargo.lock'))
    os.makedirs(os.path.join(crate, '.cargo'), exist_ok=True)
    with open(os.path.join(crate, '.cargo', 'config.toml'), 'w') as f:
        f.write('[net]\noffline = true\n')
    info = {'contracts': [], 'modules': []}
    # contracts first (line numbers of later text shift, modules are appended so unaffected)
    by_file = {}
    for rel, impl, fn, body in unit.contracts:
        by_file.setdefault(rel, []).append((impl, fn, body))
    for rel, lst in by_file.items():
        p = os.path.join(root, rel)
        if not os.path.exists(p):
            raise rsx.LostAnchor('source file %s does not exist' % rel)
        rf = rsx.RustFile(p, rel)
        ins = []
        for impl, fn, body in lst:
            it = rf.find_fn(fn, impl)
            # insert directly above the `fn` line (after doc comments / attributes)
            m = re.search(r'(?m)^[ \t]*(?:pub(?:\([^)]*\))?\s+)?(?:const\s+)?fn\s+%s\b' % re.escape(fn), rf.masked[it.start:it.end])
            off = it.start + m.start()
            ins.append((off, '\n'.join(body) + '\n'))
            info['contracts'].append({'fn': (impl + '::' if impl != '-' else '') + fn, 'file': rel,
                                      'lines': [it.line_start, it.line_end], 'sha256': it.sha256})
        src = rf.src
        for off, text in sorted(ins, reverse=True):
            src = src[:off] + text + src[off:]
        with open(p, 'w') as f:
            f.write(src)
    for rel, body in unit.modules:
        p = os.path.join(root, rel)
        if not os.path.exists(p):
            raise rsx.LostAnchor('source file %s does not exist' % rel)
        with open(p, 'a') as f:
            f.write('\n#[cfg(kani)]\nmod __verif_kani_%s {\n    #![allow(unused_imports, dead_code, unused_variables, unused_mut)]\n    use super::*;\n' % unit.name)
            f.write('\n'.join(body))
            f.write('\n}\n')
        info['modules'].append(rel)
    return root, crate, info


def parse_terse(out):
    """Per-harness results from `cargo kani -j N --output-format terse` output."""
    res = {}
    cur = {}      # thread -> harness name
    lines = out.split('\n')
    i = 0
    while i < len(lines):
        ln = lines[i]
        m = re.match(r'Thread (\d+): Checking harness (\S+?)\.\.\.', ln)
        if m:
            cur[m.group(1)] = m.group(2)
            i += 1
            continue
        m = re.match(r'Thread (\d+):\s*$', ln)
        if m and m.group(1) in cur:
            h = cur[m.group(1)]
            blk = []
            j = i + 1
            while j < len(lines) and not re.match(r'Thread \d+:', lines[j]) and not lines[j].startswith('Manual Harness Summary') \
                    and not lines[j].startswith('Complete - '):
                blk.append(lines[j])
                j += 1
            res[h] = parse_block(blk)
            i = j
            continue
        i += 1
    return res


def parse_block(blk):
    r = {'status': 'unknown', 'failed': 0, 'total': 0, 'failed_checks': [], 'time_s': None, 'raw': '\n'.join(blk)}
    k = 0
    while k < len(blk):
        ln = blk[k]
        m = re.match(r'\s*\*\* (\d+) of (\d+) failed', ln)
        if m:
            r['failed'] = int(m.group(1))
            r['total'] = int(m.group(2))
        m = re.match(r'\s*\*\* (\d+) of (\d+) cover properties satisfied', ln)
        if m:
            r['covers_sat'] = int(m.group(1))
            r['covers'] = int(m.group(2))
        m = re.match(r'Failed Checks: (.*)$', ln)
        if m:
            loc = blk[k + 1].strip() if k + 1 < len(blk) and blk[k + 1].strip().startswith('File:') else ''
            r['failed_checks'].append({'desc': m.group(1), 'loc': loc})
        if ln.startswith('VERIFICATION:- '):
            r['status'] = ln.split('- ', 1)[1].strip()
        m = re.match(r'Verification Time: ([0-9.]+)s', ln)
        if m:
            r['time_s'] = float(m.group(1))
        k += 1
    return r


def run_kani(unit_name, repo='/repo', tier='quick', jobs=6, timeout=1500, only=None, keep=False):
    t0 = time.time()
    unit = KUnit(os.path.join(VERIF, 'kani', unit_name + '.ku'))
    out = {'unit': unit_name, 'status': 'ok', 'trouble': [], 'harnesses': {}, 'failures': [], 'cmd': '',
           'info': None, 'wall_s': 0.0, 'meta': unit.harnesses}
    # tier=native: a contract-free twin that exists only to replay a contract harness's counterexample natively
    hs = [h for h in unit.harnesses if h.get('tier') != 'native' and (tier == 'thorough' or h.get('tier', 'quick') != 'thorough')]
    if only:
        hs = [h for h in hs if h['name'] in only]
    if not hs:
        out['note'] = 'no harness of this unit is selected for this property at this tier'
        return out
    try:
        root, crate, info = prepare_scratch(unit, repo)
    except rsx.LostAnchor as e:
        out['status'] = 'trouble'
        out['trouble'].append('LostAnchor: %s' % e)
        return out
    out['info'] = info
    try:
        cmd = ['cargo', 'kani', '-j', str(unit.jobs or jobs), '--output-format', 'terse'] + unit.flags
        for h in hs:
            cmd += ['--harness', h['name']]
        out['cmd'] = ' '.join(cmd)
        env = dict(os.environ, CARGO_NET_OFFLINE='true')
        try:
            p = subprocess.run(cmd, cwd=crate, capture_output=True, text=True, timeout=timeout, env=env,
                               preexec_fn=_limit_memory)
            txt = p.stdout + '\n' + p.stderr
            rc = p.returncode
        except subprocess.TimeoutExpired as e:
            txt = ((e.stdout or b'').decode(errors='replace') if isinstance(e.stdout, bytes) else (e.stdout or '')) + '\nTIMEOUT'
            rc = 124
            subprocess.run(['pkill', '-x', 'cbmc'])
        out['raw_tail'] = txt[-4000:]
        res = parse_terse(txt)
        for h in hs:
            full = [k for k in res if k.endswith('::' + h['name'])]
            if not full:
                out['trouble'].append('harness %s: no result (rc=%d)' % (h['name'], rc))
                out['harnesses'][h['name']] = {'status': 'missing'}
                continue
            r = res[full[0]]
            r['meta'] = h
            out['harnesses'][h['name']] = r
            if r['status'] == 'SUCCESSFUL':
                # vacuity guard applies to passing harnesses only (after a failed assertion, later covers are moot)
                if r.get('covers') is not None and r['covers_sat'] != r['covers']:
                    out['trouble'].append('harness %s: vacuity: only %d of %d cover properties satisfied' % (h['name'], r['covers_sat'], r['covers']))
                if h.get('covers') and int(h['covers']) != (r.get('covers') or 0):
                    out['trouble'].append('harness %s: expected %s cover properties, Kani reported %s' % (h['name'], h['covers'], r.get('covers')))
                continue
            real = [c for c in r['failed_checks'] if not any(p.search(c['desc']) for p in IGNORED_CHECK_PATTERNS)]
            ignored = [c for c in r['failed_checks'] if c not in real]
            r['ignored_checks'] = ignored
            if r['status'] == 'FAILED' and not real and ignored and r['failed'] == len(ignored):
                r['status'] = 'SUCCESSFUL'
                r['note'] = 'only ignored float-sanity checks failed'
                continue
            if r['status'] != 'FAILED' or not real:
                out['trouble'].append('harness %s: status %s without attributable failed check' % (h['name'], r['status']))
                continue
            for c in real:
                tool_limit = re.search(r'unwinding assertion|recursion unwinding|not (currently )?supported|unsupported|unwind|foreign C function', c['desc'])
                if tool_limit:
                    out['trouble'].append('harness %s: tool limit: %s' % (h['name'], c['desc']))
                    continue
                out['failures'].append({
                    'obligation': '%s/%s/%s' % (unit_name, h['name'], _slug(c['desc'])),
                    'unit': unit_name, 'harness': h['name'], 'fn': h.get('fn'), 'props': h['props'],
                    'message': c['desc'], 'loc': c['loc'], 'kind': 'kani', 'level': h['level'],
                })
        if rc == 124:
            out['trouble'].append('cargo kani timeout after %ds' % timeout)
        if not res and rc != 0:
            out['trouble'].append('cargo kani failed (rc=%d): %s' % (rc, txt[-1500:]))
        # counterexamples for failures
        if out['failures'] and not out['trouble']:
            for hname in sorted(set(f['harness'] for f in out['failures'])):
                cex = concrete_playback(crate, unit, hname, env)
                meta = next((h for h in unit.harnesses if h['name'] == hname), {})
                if cex.get('native') != 'panicked' and cex.get('test_block') and meta.get('native'):
                    native_twin_replay(cex, unit, repo, hname, meta['native'], env)
                cex.pop('test_block', None)
                for f in out['failures']:
                    if f['harness'] == hname:
                        f['counterexample'] = cex
    finally:
        if keep:
            out['scratch'] = root
        else:
            shutil.rmtree(root, ignore_errors=True)
    if out['trouble']:
        out['status'] = 'trouble'
    elif out['failures']:
        out['status'] = 'failed'
    out['wall_s'] = time.time() - t0
    return out


def _limit_memory():
    # every CBMC process is capped (address space) so that a runaway query ends as tool trouble, not as an OOM kill
    import resource
    cap = int(os.environ.get('VERIF_KANI_MEM_GB', '10')) * (1 << 30)
    resource.setrlimit(resource.RLIMIT_AS, (cap, cap))


def concrete_playback(crate, unit, hname, env, timeout=420):
    """Ask Kani for concrete values of the failing harness, insert the generated unit test in
    place and run it natively on the real code (`cargo kani playback`)."""
    cex = {'values': None, 'native': None, 'native_output': ''}
    cmd = ['cargo', 'kani', '-Z', 'concrete-playback', '--concrete-playback=inplace'] + unit.flags + ['--harness', hname]
    try:
        p = subprocess.run(cmd, cwd=crate, capture_output=True, text=True, timeout=timeout, env=env,
                           preexec_fn=_limit_memory)
    except subprocess.TimeoutExpired:
        subprocess.run(['pkill', '-x', 'cbmc'])
        cex['native_output'] = 'timeout generating concrete values'
        return cex
    tests = sorted(set(re.findall(r'- (kani_concrete_playback_\w+)', p.stdout + p.stderr)))
    if not tests:
        cex['native_output'] = 'Kani produced no concrete playback test'
        return cex
    # Kani emits one unit test per failing check AND per satisfied cover; read back all value vectors
    vals = {}
    for root, _, files in os.walk(os.path.join(crate, 'src')):
        for fn in files:
            pth = os.path.join(root, fn)
            s = open(pth).read()
            for test in tests:
                k = s.find('fn ' + test)
                if k >= 0:
                    blk = s[k:s.find('concrete_playback_run', k)]
                    vals[test] = [ln.strip() for ln in blk.split('\n') if ln.strip().startswith('//') or ln.strip().startswith('vec![')]
    # keep the text of the first generated test: a contract harness cannot fail natively (contracts are not
    # executable), its values can be replayed on a contract-free twin harness (native_twin_replay)
    for root, _, files in os.walk(os.path.join(crate, 'src')):
        for fn in files:
            s = open(os.path.join(root, fn)).read()
            k = s.find('fn ' + tests[0])
            if k >= 0:
                a = s.rfind('#[test]', 0, k)
                b = s.find('\n}', k)
                if a >= 0 and b >= 0:
                    cex['test_block'] = (tests[0], s[a:b + 2])
    cmd2 = ['cargo', 'kani', 'playback', '-Z', 'concrete-playback'] + [x for x in unit.flags] + ['--', 'kani_concrete_playback_' + hname]
    try:
        p2 = subprocess.run(cmd2, cwd=crate, capture_output=True, text=True, timeout=timeout, env=env)
        txt = p2.stdout + p2.stderr
        failed = sorted(set(re.findall(r'(kani_concrete_playback_\w+) \.\.\. FAILED', txt)))
        if failed:
            cex['native'] = 'panicked'
            cex['values'] = vals.get(failed[0])
            cex['failing_tests'] = failed
        else:
            cex['native'] = 'passed' if 'test result: ok' in txt else 'unknown'
            cex['values'] = vals.get(tests[0])
        keep = [ln for ln in txt.split('\n') if re.search(r'panicked at|assertion|overflow|test result: FAILED|^thread ', ln)]
        cex['native_output'] = '\n'.join(keep[:20])
    except subprocess.TimeoutExpired:
        cex['native_output'] = 'timeout in native playback'
    cex['playback_cmd'] = ' '.join(cmd2)
    return cex


def native_twin_replay(cex, unit, repo, hname, twin, env, timeout=300):
    """Replay the concrete values Kani found for a function-contract harness on its contract-free twin: a second
    scratch copy of the real crate WITHOUT the contract attributes, the generated playback test re-pointed at the twin
    harness (same kani::any() sequence, the postcondition written as plain asserts), run natively."""
    import copy
    u2 = copy.copy(unit)
    u2.contracts = []
    test_name, block = cex['test_block']
    new_name = 'kani_concrete_playback_%s_twin' % twin
    block = block.replace(test_name, new_name)
    block = re.sub(r'(concrete_playback_run\(\s*concrete_vals\s*,\s*)%s\b' % re.escape(hname), r'\g<1>%s' % twin, block)
    try:
        root2, crate2, _ = prepare_scratch(u2, repo)
    except Exception as e:  # noqa
        cex['native_output'] += '\n(twin replay: could not prepare scratch: %s)' % e
        return
    try:
        rel = next(h['file'] for h in unit.harnesses if h['name'] == twin)
        pth = os.path.join(root2, rel)
        src = open(pth).read()
        k = src.rstrip().rfind('}')
        src = src[:k] + '\n' + block + '\n}\n'
        open(pth, 'w').write(src)
        cmd = ['cargo', 'kani', 'playback', '-Z', 'concrete-playback'] + [x for x in unit.flags] + ['--', new_name]
        p = subprocess.run(cmd, cwd=crate2, capture_output=True, text=True, timeout=timeout, env=env)
        txt = p.stdout + p.stderr
        if re.search(r'%s \.\.\. FAILED' % re.escape(new_name), txt):
            cex['native'] = 'panicked'
            keep = [ln for ln in txt.split('\n') if re.search(r'panicked at|assertion|overflow|test result: FAILED|^thread ', ln)]
            cex['native_output'] = 'replayed on the contract-free twin harness %s with the same concrete values:\n%s' % (twin, '\n'.join(keep[:12]))
            cex['playback_cmd'] = ' '.join(cmd) + '   (scratch copy without the contract attributes)'
        else:
            cex['native_output'] += '\n(twin replay on %s did not fail natively)' % twin
    except subprocess.TimeoutExpired:
        cex['native_output'] += '\n(twin replay timed out)'
    except StopIteration:
        cex['native_output'] += '\n(twin harness %s not found)' % twin
    finally:
        shutil.rmtree(root2, ignore_errors=True)


def _slug(s):
    return re.sub(r'[^A-Za-z0-9]+', '_', s).strip('_')[:80]


if __name__ == '__main__':
    import json
    r = run_kani(sys.argv[1], repo=os.environ.get('VERIF_REPO', '/repo'), tier=os.environ.get('VERIF_TIER', 'quick'),
                 only=sys.argv[2:] or None, timeout=int(os.environ.get('VERIF_KANI_TIMEOUT', '600')))
    print(r['status'], 'wall', round(r['wall_s'], 1))
    for t in r['trouble']:
        print('TROUBLE', t)
    for h, v in r['harnesses'].items():
        print(' ', h, v.get('status'), '%s/%s' % (v.get('failed'), v.get('total')), v.get('time_s'))
    for f in r['failures']:
        print('FAIL', f['obligation'], f['props'], f['loc'], json.dumps(f.get('counterexample')))
    if r['status'] == 'trouble':
        print(r.get('raw_tail', '')[-3000:])
