#!/usr/bin/env python3
"""Rewrite the seeded-change table of DESIGN.md (between the SEEDED-TABLE markers) from seeded/*/meta.json."""
import json, os, re
V = os.path.dirname(os.path.dirname(os.path.abspath(__file__)))
rows = []
cnt = {}
for n in sorted(os.listdir(os.path.join(V, 'seeded'))):
    mp = os.path.join(V, 'seeded', n, 'meta.json')
    if not os.path.exists(mp):
        continue
    m = json.load(open(mp))
    v = m.get('verdict', 'not run')
    cnt[v] = cnt.get(v, 0) + 1
    obl = m.get('detected_by') or []
    und = m.get('undecided_reason') or []
    cell = '; '.join('`%s`' % (o.split('/', 1)[1] if '/' in o else o)[:100] for o in obl[:2]) or (und[0][11:150] if und else '')
    rows.append('| %s | %s | %s | %s |' % (n, m.get('needs_to_manifest', '')[:115].replace('|', '/'), v, cell.replace('|', '/')))
head = ('%d changes; at this commit: **%s.**\n\n| change | what it needs to manifest | verdict | obligation(s) that report it |\n|--------|---------------------------|---------|------------------------------|\n'
        % (len(rows), ', '.join('%d %s' % (cnt[k], k) for k in ('detected', 'undecided', 'missed', 'not run') if k in cnt)))
p = os.path.join(V, 'DESIGN.md')
s = open(p).read()
a, b = '<!-- SEEDED-TABLE-BEGIN -->', '<!-- SEEDED-TABLE-END -->'
if a not in s:
    raise SystemExit('markers missing in DESIGN.md')
s = s[:s.index(a) + len(a)] + '\n' + head + '\n'.join(rows) + '\n' + s[s.index(b):]
open(p, 'w').write(s)
print(len(rows), cnt)
