#!/usr/bin/env python3
"""Record, for every function under contract, how many closure expressions its body holds on the pinned tree
(baseline/closures.json).  Run on the unchanged tree only; the file is committed."""
import json, os, sys, glob
sys.path.insert(0, os.path.dirname(__file__))
import vgen
V = os.path.dirname(os.path.dirname(os.path.abspath(__file__)))
out = {}
loops = {}
for u in sorted(glob.glob(os.path.join(V, 'units', '*.vu'))):
    name = os.path.basename(u)[:-3]
    g = vgen.Gen(u, repo=os.environ.get('VERIF_REPO', '/repo'))
    g.run()
    out[name] = {f['fn']: f.get('closures', 0) for f in g.functions if f.get('closures', 0)}
    loops[name] = {f['fn']: f.get('loops', 0) for f in g.functions if f.get('loops', 0)}
json.dump(out, open(os.path.join(V, 'baseline', 'closures.json'), 'w'), indent=1, sort_keys=True)
# loop contracts are positional (`//@ loop k`): the number of loops each function has on the pinned tree
json.dump(loops, open(os.path.join(V, 'baseline', 'loops.json'), 'w'), indent=1, sort_keys=True)
print({k: v for k, v in out.items() if v})
