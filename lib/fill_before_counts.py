#!/usr/bin/env python3
"""Write `of=<n>` (the current number of call sites) into every `//@ before <callee> <k>` directive of the units."""
import glob, os, re, sys
V = os.path.dirname(os.path.dirname(os.path.abspath(__file__)))
sys.path.insert(0, os.path.join(V, 'lib'))
import rsx
REPO = os.environ.get('VERIF_REPO', '/repo')
for path in sorted(glob.glob(os.path.join(V, 'units', '*.vu')) + glob.glob(os.path.join(V, 'units', '_include', '*.vu'))):
    lines = open(path).read().split('\n')
    cur = None
    changed = False
    for i, ln in enumerate(lines):
        m = re.match(r'//@ (fn|stub) (\S+) (\S+) (\S+)', ln)
        if m:
            cur = (m.group(2), m.group(3), m.group(4))
        m = re.match(r'(//@ before (\S+) (\d+))( of=\d+)?\s*$', ln)
        if m and cur:
            rel, impl, name = cur
            text = open(os.path.join(REPO, rel)).read()
            masked, _ = rsx.mask(text)
            # the function body: the `fn name` inside the right impl is found by vgen; here: every `fn name` body, take the one
            # whose count makes k valid (names are unique per file in this code base)
            cands = []
            for mm in re.finditer(r'\bfn\s+%s\b' % re.escape(name), masked):
                bo = rsx.first_open_brace(masked, mm.start())
                if bo < 0:
                    continue
                bc = rsx.match_close(masked, bo)
                # skip test modules
                cands.append(len(re.findall(r'\b%s\s*\(' % re.escape(m.group(2)), masked[bo:bc])))
            n = cands[0] if cands else 0
            new = '%s of=%d' % (m.group(1), n)
            if new != ln:
                lines[i] = new
                changed = True
            print(os.path.basename(path), name, m.group(2), m.group(3), 'of', n, cands)
    if changed:
        open(path, 'w').write('\n'.join(lines))
