#!/usr/bin/env python3
"""Regenerate MANIFEST.json from lib/registry.py and lib/manifest_text.py."""
import json, os, sys
sys.path.insert(0, os.path.dirname(__file__))
import registry, manifest_text as T
V = os.path.dirname(os.path.dirname(os.path.abspath(__file__)))
checks = []
for pid in sorted(registry.PROPS):
    reg = registry.PROPS[pid]
    t = T.CHECKS[pid]
    checks.append({
        'property_id': pid,
        'quick_cmd': 'bin/vcheck %s --tier quick' % pid,
        'thorough_cmd': 'bin/vcheck %s --tier thorough' % pid,
        'evidence_file': '/verif/evidence/%s.json' % pid,
        'replay_cmd_template': 'bin/vcheck replay {path}',
        'engine': 'vcheck',
        'level_claimed': {'category': reg['level'], 'text': t['text'], 'design_ref': reg['design_ref']},
        'level_note': t['note'],
        'technique': t['technique'],
    })
all_ids = [json.loads(l)['id'] for l in open(os.path.join(V, 'properties.jsonl')) if l.strip()]
na = dict(T.NOT_APPLICABLE)
for i in all_ids:
    if i not in registry.PROPS and i not in na:
        na[i] = 'not claimed yet: its units are planned in DESIGN.md §5/§9 but not built and validated at this commit'
m = {
    'version': 1,
    'setup_cmd': 'python3 -c "import json,re,subprocess" && verus --version >/dev/null && cargo kani --version >/dev/null && cargo +1.98.1-x86_64-unknown-linux-gnu --version >/dev/null',
    'hooks': {
        'guard': 'cfg(kani)',
        'enable': 'no hook is committed to /repo: contracts (#[cfg_attr(kani, kani::ensures(..))]) and harness modules (#[cfg(kani)] mod ..) are injected by lib/krun.py into a scratch copy of abasic-core made from the working tree on every run; Verus units are regenerated from the working tree by lib/vgen.py',
        'baseline_off_cmd': 'cd /repo && cargo test --workspace --no-fail-fast --offline',
        'source_commits': [],
        'add_only': True,
    },
    'engines': [{'name': 'vcheck', 'path': 'bin/vcheck', 'serves_properties': sorted(registry.PROPS),
                 'kind_free_text': 'contract-based deductive verification: Verus (Z3) on items extracted verbatim from /repo each run; Kani (CBMC) function contracts and harnesses on a scratch copy of the real crate'}],
    'checks': checks,
    'not_applicable': [{'property_id': k, 'reason': v} for k, v in sorted(na.items()) if k not in registry.PROPS],
    'notes': T.NOTES,
}
json.dump(m, open(os.path.join(V, 'MANIFEST.json'), 'w'), indent=1)
print('MANIFEST.json written: %d checks, %d not applicable' % (len(checks), len(m['not_applicable'])))
